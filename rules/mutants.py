"""Thorough-tier self-test: scripted single-edit mutants of the repository, each applied to a scratch copy
(outside /repo and /verif, removed afterwards), analysed by the same check, and expected to be reported by the
named rule.  A mutant that does not compile is recorded as invalid, a mutant that is not reported as a survivor.
Mutants never touch /repo and never influence the verdict on the real tree."""
import json
import os
import re
import shutil
import subprocess
import sys
import tempfile

from . import facts

# (id, property, file, old text, new text, regex the reported key must match)
M = [
    ("m01", "C01", "src/redis/executor/mod.rs", "*expiration <= self.current_time", "*expiration < self.current_time", r"R01\.1"),
    ("m02", "C01", "src/redis/executor/string_ops.rs", "            .insert(key.to_string(), Value::String(value.clone()));\n        self.expirations.remove(key);\n        #[cfg(debug_assertions)]\n        debug_assert!(\n            self.data.contains_key(key),\n            \"Postcondition: key must exist after SETNX success\"",
     "            .insert(key.to_string(), Value::String(value.clone()));\n        #[cfg(debug_assertions)]\n        debug_assert!(\n            self.data.contains_key(key),\n            \"Postcondition: key must exist after SETNX success\"", r"R01\."),
    ("m03", "C01", "src/redis/executor/key_ops.rs", "                None => return RespValue::Integer(0),\n", "", r"R01\.7"),
    ("m38", "C01", "src/redis/executor/sorted_set_ops.rs", "                if zs.is_empty() {\n                    // Every pair was filtered out (e.g. XX on an absent key): the sorted set\n                    // created above must not be left behind empty\n                    self.data.remove(key);\n                    self.expirations.remove(key);\n                    return RespValue::Integer(0);\n                }\n", "", r"R01\.6"),
    ("m39", "C01", "src/redis/executor/list_ops.rs", "        // Redis auto-deletes empty lists\n        if matches!(self.data.get(key), Some(Value::List(l)) if l.is_empty()) {\n            self.data.remove(key);\n            self.expirations.remove(key);\n        }\n        #[cfg(debug_assertions)]\n        if matches!(self.data.get(key), Some(Value::List(l)) if l.is_empty()) {\n            panic!(\"Invariant violated: empty list should have been deleted\");\n        }\n        result\n    }\n\n    pub(super) fn execute_rpop(",
     "        #[cfg(debug_assertions)]\n        if matches!(self.data.get(key), Some(Value::List(l)) if l.is_empty()) {\n            panic!(\"Invariant violated: empty list should have been deleted\");\n        }\n        result\n    }\n\n    pub(super) fn execute_rpop(", r"R01\.5"),
    ("m04", "C02", "src/production/sharded_actor.rs", "        let result = response_future(response_slot.clone()).await;\n        self.response_pool.release(response_slot);\n        result\n    }\n\n    /// Pooled fast SET",
     "        self.response_pool.release(response_slot.clone());\n        let result = response_future(response_slot).await;\n        result\n    }\n\n    /// Pooled fast SET", r"R02\.4"),
    ("m05", "C03", "src/production/sharded_actor.rs", "    hash_key_bytes(key.as_bytes(), num_shards)\n", "    let mut h = DefaultHasher::new();\n    key.hash(&mut h);\n    (h.finish() as usize) % num_shards\n", r"R03\.1"),
    ("m06", "C03", "src/production/sharded_actor.rs", "        let shard_idx = hash_key_bytes(&key, self.num_shards);\n        debug_assert!(shard_idx < self.shards.len(), \"Shard index out of bounds\");\n        self.shards[shard_idx].fast_get(key).await",
     "        let shard_idx = key.len() % self.num_shards;\n        self.shards[shard_idx].fast_get(key).await", r"R03\.2"),
    ("m07", "C04", "src/production/connection_optimized.rs", "                    self.metrics.record_command(\"PARSE_ERROR\", 0.0, false);\n                    // If in a transaction, mark it as having errors\n                    if self.in_transaction {\n                        self.transaction_errors = true;\n                    }\n                    Self::encode_error_into(&e, &mut self.write_buffer);",
     "                    self.metrics.record_command(\"PARSE_ERROR\", 0.0, false);\n                    // If in a transaction, mark it as having errors\n                    if self.in_transaction {\n                        self.transaction_errors = true;\n                    }\n                    let _ = &e;", r"R04\.2"),
    ("m08", "C04", "src/production/connection_optimized.rs", "                                    self.buffer.clear();\n                                    Self::encode_error_into(\n                                        \"protocol error\",\n                                        &mut self.write_buffer,\n                                    );",
     "                                    self.buffer.clear();", r"R04\.3"),
    ("m09", "C05", "src/production/connection_optimized.rs", "                        if self.buffer.len() >= min_pipeline_buffer && !self.in_transaction {", "                        if self.buffer.len() >= min_pipeline_buffer {", r"R05\.1"),
    ("m10", "C05", "src/production/connection_optimized.rs", "                            Command::Discard => {\n                                self.in_transaction = false;\n                                self.transaction_queue.clear();\n                                self.transaction_errors = false;\n                                self.watched_keys.clear();",
     "                            Command::Discard => {\n                                self.in_transaction = false;\n                                self.transaction_queue.clear();\n                                self.transaction_errors = false;", r"R05\.2"),
    ("m42", "C05", "src/redis/executor/transaction_ops.rs", "        self.in_transaction = false;\n        self.queued_commands.clear();\n        self.watched_keys.clear();\n", "        self.in_transaction = false;\n        self.queued_commands.clear();\n", r"R05\.2:executor"),
    ("m43", "C05", "src/redis/executor/mod.rs", "                Command::Exec | Command::Discard | Command::Multi => {}", "                Command::Exec | Command::Discard | Command::Multi | Command::Ping(_) => {}", r"R05\.1:executor"),
    ("m44", "C05", "src/redis/executor/transaction_ops.rs", "commands.into_iter().map(|cmd| self.execute(&cmd)).collect();", "commands.into_iter().skip(1).map(|cmd| self.execute(&cmd)).collect();", r"R05\.3:executor"),
    ("m11", "C06", "src/replication/state/shard_state.rs", "            Some(local) => local.merge(&delta.value),", "            Some(_local) => delta.value,", r"R06\.3"),
    ("m46", "C06", "src/production/replicated_state.rs", "                if self.config.enabled {\n                    match &self.gossip_backend {", "                if self.config.enabled && delta.value.expiry_ms.is_none() {\n                    match &self.gossip_backend {", r"R06\.7"),
    ("m47", "C06", "src/production/replicated_state.rs", "                            handle.queue_deltas(vec![delta.clone()]);", "                            let _ = handle;", r"R06\.7"),
    ("m12", "C07", "src/replication/lattice.rs", "            positive: self.positive.merge(&other.positive),\n            negative: self.negative.merge(&other.negative),", "            positive: self.positive.merge(&other.positive),\n            negative: self.negative.merge(&other.positive),", r"R07\.1"),
    ("m13", "C07", "src/replication/lattice.rs", "        if other.timestamp > self.timestamp {\n            other.clone()", "        if other.timestamp >= self.timestamp {\n            other.clone()", r"R07\.5"),
    ("m14", "C08", "src/replication/lattice.rs", "        self.time = self.time.max(other.time) + 1;", "        self.time = other.time + 1;", r"R08\.1"),
    ("m15", "C08", "src/production/replicated_shard_actor.rs", "                    self.replica_state.lamport_clock.update(&value.timestamp);\n", "", r"R08\.3"),
    ("m51", "C08", "src/production/replicated_state.rs", "            for (key, value) in state {\n                let shard_idx = hash_key(&key);", "            for (key, value) in state {\n                if value.is_tombstone() {\n                    continue;\n                }\n                let shard_idx = hash_key(&key);", r"R(08|11)\."),
    ("m16", "C09", "src/streaming/wal_actor.rs", "                            if let Some(tx) = ack_tx {\n                                self.pending_acks.push(tx);\n                            }", "                            if let Some(tx) = ack_tx {\n                                let _ = tx.send(Ok(()));\n                            }", r"R09\.1"),
    ("m17", "C09", "src/streaming/wal_store.rs", "        self.file\n            .sync_all()\n            .map_err(|e| WalError::FsyncFailed(e.to_string()))", "        use std::io::Write;\n        self.file\n            .flush()\n            .map_err(|e| WalError::FsyncFailed(e.to_string()))", r"R09\.3"),
    ("m18", "C09", "src/streaming/wal.rs", "                self.current_writer = None;\n                self.unsynced_lost = true;\n                Err(e)", "                self.current_writer = None;\n                Err(e)", r"R09\.2"),
    ("m45", "C09", "src/production/replicated_state.rs", "                            if let Err(e) = wal.write_durable(std::sync::Arc::clone(&delta), timestamp).await {", "                            wal.write_fire_and_forget(std::sync::Arc::clone(&delta), timestamp);\n                            if let Err(e) = Ok::<(), String>(()) {", r"R09\.7"),
    ("m19", "C10", "src/streaming/wal.rs", "        if actual_checksum != checksum {\n            return None; // Corrupted entry\n        }\n", "        let _ = (actual_checksum, checksum);\n", r"R10\.1"),
    ("m20", "C10", "src/streaming/wal.rs", "            if current_name.as_deref() == Some(name.as_str()) {\n                continue;\n            }\n", "", r"R10\.4"),
    ("m21", "C10", "src/streaming/wal.rs", "            let reader = match self.store.open_read(&name) {\n                Ok(r) => r,\n                Err(_) => continue, // Skip unreadable files\n            };", "            let reader = self.store.open_read(&name)?;", r"R10\.3"),
    ("m22", "C11", "src/streaming/recovery.rs", "            let segment_deltas = self.load_segment(segment_info).await?;\n            stats.bytes_read += segment_info.size_bytes;\n            stats.segments_loaded += 1;",
     "            let segment_deltas = match self.load_segment(segment_info).await {\n                Ok(d) => d,\n                Err(_) => continue,\n            };\n            stats.bytes_read += segment_info.size_bytes;\n            stats.segments_loaded += 1;", r"R11\.2"),
    ("m50", "C11", "src/streaming/recovery.rs", "            stats.deltas_replayed += segment_deltas.len() as u64;\n            all_deltas.extend(segment_deltas);\n        }\n\n        Ok(RecoveredState {", "            stats.deltas_replayed += segment_deltas.len() as u64;\n            if segment_info.max_timestamp < segment_info.min_timestamp {\n                continue;\n            }\n            all_deltas.extend(segment_deltas);\n        }\n\n        Ok(RecoveredState {", r"R11\."),
    ("m23", "C12", "src/streaming/manifest.rs", "        self.store.put(&self.temp_key, &data).await?;\n\n        // Atomic rename (on POSIX systems)\n        self.store\n            .rename(&self.temp_key, &self.manifest_key)\n            .await?;",
     "        self.store.put(&self.manifest_key, &data).await?;", r"R12\.3"),
    ("m24", "C12", "src/streaming/persistence.rs", "        self.store.put(&segment_key, &data).await?;\n", "        let _ = self.store.put(&segment_key, &data).await;\n", r"R12\.(1|6)"),
    ("m48", "C12", "src/streaming/persistence.rs", "        for delta in deltas {\n            writer.write_delta(delta)?;\n        }", "        for delta in deltas {\n            if delta.value.is_tombstone() && delta.value.expiry_ms.is_some() {\n                continue;\n            }\n            writer.write_delta(delta)?;\n        }", r"R12\.7"),
    ("m49", "C12", "src/streaming/persistence.rs", "        for delta in deltas {\n            writer.write_delta(delta)?;\n        }", "        for delta in deltas.iter().skip(1) {\n            writer.write_delta(delta)?;\n        }", r"R12\.7"),
    ("m25", "C13", "src/streaming/compaction.rs", "        new_manifest\n            .segments\n            .retain(|s| !segment_ids.contains(&s.id));\n        new_manifest.add_segment(new_segment.clone());",
     "        let max_id = segment_ids.iter().copied().max().unwrap_or(0);\n        new_manifest.segments.retain(|s| s.id > max_id);\n        new_manifest.add_segment(new_segment.clone());", r"R13\.6"),
    ("m40", "C13", "src/streaming/compaction.rs", "Err(e) if e.kind() == std::io::ErrorKind::NotFound => {", "Err(e) if e.kind() == std::io::ErrorKind::TimedOut => {", r"R13\.5"),
    ("m41", "C13", "src/streaming/compaction.rs", "                        Err(e) => {\n                            eprintln!(\"Failed to read deltas from {}: {}\", segment_info.key, e);\n                        }", "                        Err(e) => {\n                            eprintln!(\"Failed to read deltas from {}: {}\", segment_info.key, e);\n                            actually_compacted.push(segment_info);\n                        }", r"R13\.5"),
    ("m26", "C14", "src/streaming/segment.rs", "        hasher.update(&self.record_count.to_le_bytes());\n        hasher.update(&self.min_timestamp.to_le_bytes());", "        hasher.update(&self.min_timestamp.to_le_bytes());", r"R14\.3"),
    ("m27", "C14", "src/streaming/recovery.rs", "        // Validate segment integrity\n        reader.validate()?;\n", "", r"R14\.4"),
    ("m28", "C15", "src/redis/resp_optimized.rs", "            if len < 0 {\n                return Err(format!(\"Invalid bulk string length: {}\", len));\n            }\n", "", r"R15\.1"),
    ("m29", "C15", "src/redis/resp_optimized.rs", "Vec::with_capacity((len as usize).min(input.len()))", "Vec::with_capacity(len as usize)", r"R15\.2"),
    ("m30", "C16", "src/redis/commands.rs", "                    \"GETDEL\" => {", "                    \"GETDEL\" | \"GETRM\" => {", r"R16\.1"),
    ("m31", "C17", "src/redis/command.rs", "            Command::Get(_)\n", "            Command::Get(_)\n                | Command::GetDel(_)\n", r"R17\.1"),
    ("m32", "C18", "src/replication/anti_entropy.rs", "        for digests in bucket_digests.iter_mut() {\n            digests.sort_unstable_by_key(|d| (d.key_hash, d.value_hash, d.timestamp));\n        }\n", "", r"R18\.1"),
    ("m33", "C18", "src/simulator/multi_node.rs", "                self.nodes[node_b].apply_remote_deltas(deltas_a);\n                self.nodes[node_a].apply_remote_deltas(deltas_b);", "                self.nodes[node_b].apply_remote_deltas(deltas_a);\n                let _ = deltas_b;", r"R18\.3"),
    ("m34", "C19", "src/replication/hash_ring.rs", "        // Sort by position\n        self.ring.sort_by_key(|(pos, _)| *pos);\n", "", r"R19\.2"),
    ("m35", "C19", "src/replication/hash_ring.rs", "            .filter(|r| *r != sender)\n", "", r"R19\.5"),
    ("m36", "C20", "src/simulator/rng.rs", "            rng: ChaCha8Rng::seed_from_u64(seed),", "            rng: { let _ = seed; ChaCha8Rng::from_entropy() },", r"R20\.(1|2)"),
    ("m37", "C20", "src/simulator/multi_node.rs", "                routes.sort_unstable_by_key(|(replica, _)| replica.0);\n", "", r"R20\.3"),
    # ---- round-3/4 rules
    ("m52", "C01", "src/redis/executor/mod.rs", "            Command::DecrBy(key, decrement) => decrement\n                .checked_neg()\n                .map(|neg| self.incr_by_impl(key, neg))\n                .unwrap_or_else(|| RespValue::err(\"ERR value is out of range\")),",
     "            Command::DecrBy(key, decrement) => self.incr_by_impl(key, decrement.wrapping_neg()),", r"R01\.10"),
    ("m53", "C01", "src/redis/executor/sorted_set_ops.rs", "                for (score, member) in pairs {\n                    // Single lookup for current score\n                    let current_score = zs.score(member);",
     "                let was_empty = zs.is_empty();\n                for (score, member) in pairs {\n                    let current_score = if was_empty { None } else { zs.score(member) };", r"R01\.11"),
    ("m54", "C13", "src/streaming/compaction.rs", "self.config.tombstone_ttl.as_millis() as u64", "self.config.tombstone_ttl.subsec_millis() as u64", r"R13\.10"),
    ("m55", "C19", "src/replication/gossip_router.rs", "            for target in targets {", "            for target in targets.into_iter().skip(1) {", r"R19\.5"),
    ("m56", "C16", "src/redis/commands.rs", "                        String::from_utf8_lossy(data).to_uppercase()", "                        String::from_utf8_lossy(data).to_ascii_uppercase()", r"R16\.1:frame"),
    ("m57", "C17", "src/redis/executor/transaction_ops.rs", "        let results: Vec<RespValue> = commands.into_iter().map(|cmd| self.execute(&cmd)).collect();",
     "        let mut results: Vec<RespValue> = Vec::new();\n        for cmd in commands {\n            if results.len() > 1000 {\n                return RespValue::err(\"ERR transaction too long\");\n            }\n            results.push(self.execute(&cmd));\n        }", r"R17\.6"),
    ("m58", "C20", "src/simulator/dst.rs", "        self.operation_counter += 1;", "        static NEXT: std::sync::atomic::AtomicU64 = std::sync::atomic::AtomicU64::new(0);\n        self.operation_counter = NEXT.fetch_add(1, std::sync::atomic::Ordering::Relaxed) + 1;", r"R20\.6"),
    ("m59", "C18", "src/replication/anti_entropy.rs", "        keys.iter()\n            .filter(|(key, value)| {\n                let digest = KeyDigest::new(key, value);\n                buckets.contains(&digest.bucket(depth))\n            })\n            .take(self.config.max_keys_per_sync)",
     "        keys.iter()\n            .take(self.config.max_keys_per_sync)\n            .filter(|(key, value)| {\n                let digest = KeyDigest::new(key, value);\n                buckets.contains(&digest.bucket(depth))\n            })", r"R18\.7"),
    ("m60", "C04", "src/production/connection_optimized.rs", "                        self.buffer.extend_from_slice(&read_buf[..n]);\n",
     "                        self.buffer.extend_from_slice(&read_buf[..n]);\n                        if n < 2 {\n                            continue;\n                        }\n", r"R04\.8"),
    ("m61", "C15", "src/production/connection_optimized.rs", "            RespValue::Error(s) => {\n                buf.put_u8(b'-');\n                buf.extend_from_slice(s.as_bytes());\n                buf.extend_from_slice(b\"\\r\\n\");\n            }",
     "            RespValue::Error(s) => {\n                Self::encode_error_into(s, buf);\n            }", r"R15\.8"),
    ("m62", "C08", "src/production/replicated_state.rs", "            snapshot.extend(shard_snapshot);", "            snapshot.extend(shard_snapshot.into_iter().filter(|(_, v)| !v.is_tombstone()));", r"R08\.6"),
    ("m63", "C09", "src/streaming/wal.rs", "            .iter()\n            .filter_map(|name| parse_wal_sequence(name))\n            .max()\n            .unwrap_or(0);", "            .last()\n            .and_then(|name| parse_wal_sequence(name))\n            .unwrap_or(0);", r"R09\.8"),
    ("m64", "C14", "src/replication/lattice.rs", "    /// Next sequence number for each replica\n    next_sequence: HashMap<ReplicaId, u64>,", "    /// Next sequence number for each replica\n    #[serde(skip)]\n    next_sequence: HashMap<ReplicaId, u64>,", r"R14\.8"),
    ("m65", "C14", "src/streaming/checkpoint.rs", "        let key_count = state.len() as u64;\n        let data = CheckpointData { state };", "        let mut state = state;\n        state.retain(|_, v| !v.is_tombstone());\n        let key_count = state.len() as u64;\n        let data = CheckpointData { state };", r"R14\.9"),
    ("m66", "C15", "src/production/connection_optimized.rs", "            RespValue::Array(None) => {\n                buf.extend_from_slice(b\"*-1\\r\\n\");\n            }", "            RespValue::Array(None) => {\n                buf.extend_from_slice(b\"$-1\\r\\n\");\n            }", r"R15\.10"),
    ("m67", "C15", "src/redis/resp_optimized.rs", "            let len = len as usize;\n            let start = pos + 2;", "            if len == 0 {\n                return Ok((RespValueZeroCopy::BulkString(Some(Bytes::new())), pos + 4));\n            }\n            let len = len as usize;\n            let start = pos + 2;", r"R15\.5"),
    ("m68", "C02", "src/production/sharded_actor.rs", "            shard_batches[shard_idx].push((idx, key.clone()));", "            if idx % 1024 == 1023 {\n                continue;\n            }\n            shard_batches[shard_idx].push((idx, key.clone()));", r"R02\.7"),
    ("m69", "C01", "src/redis/data/sorted_set.rs", "            (len + stop).max(-1)\n        } else {\n            stop.min(len - 1)\n        };\n\n        if start > stop || start >= len {\n            return Vec::new();\n        }\n\n        self.skiplist\n            .range(",
     "            (len + stop).max(0)\n        } else {\n            stop.min(len - 1)\n        };\n\n        if start > stop || start >= len {\n            return Vec::new();\n        }\n\n        self.skiplist\n            .range(", r"R01\.9:window-bounds"),
    ("m70", "C02", "src/production/response_pool.rs", "        let mut state = self.state.lock();\n        state.value = None;\n        state.waker = None;", "        let mut state = self.state.lock();\n        state.waker = None;", r"R02\.8:reset"),
    ("m71", "C02", "src/production/response_pool.rs", "        // Reset the slot for reuse\n        slot.reset();\n", "", r"R02\.8:release:pooled-slot-is-clean"),
    ("m72", "C02", "src/production/response_pool.rs", "        let mut state = self.slot.state.lock();\n\n        // Try to take the value\n        if let Some(value) = state.value.take() {\n            return Poll::Ready(value);\n        }\n",
     "        if let Some(value) = self.slot.state.lock().value.take() {\n            return Poll::Ready(value);\n        }\n        let mut state = self.slot.state.lock();\n", r"R02\.8:poll"),
    ("m73", "C04", "src/production/connection_pool.rs", "        buf.clear();\n        if buf.capacity() <= self.capacity * 2 {", "        if buf.capacity() <= self.capacity * 2 {", r"R04\.9"),
    ("m74", "C05", "src/production/connection_optimized.rs", "                                            .execute(&Command::Get(key.clone()))\n                                            .await;\n                                        if !resp_values_equal(&current, old_value) {",
     "                                            .execute(&Command::Exists(vec![key.clone()]))\n                                            .await;\n                                        if !resp_values_equal(&current, old_value) {", r"R05\.8"),
    ("m75", "C15", "src/production/connection_optimized.rs", "        // Header is 14 bytes: \"*2\\r\\n$3\\r\\nGET\\r\\n\"\n        const HEADER_LEN: usize = 14;\n\n        let buf = &self.buffer[..];\n        if buf.len() < HEADER_LEN + 1 {",
     "        // Header is 14 bytes: \"*2\\r\\n$3\\r\\nGET\\r\\n\"\n        const HEADER_LEN: usize = 14;\n\n        let buf = &self.buffer[..];\n        if buf.len() < HEADER_LEN {", r"R15\.11"),
    ("m76", "C10", "src/streaming/wal.rs", "        if data.len() < WAL_HEADER_SIZE {", "        if data.len() < 4 {", r"R10\.7"),
    ("m77", "C14", "src/replication/gossip.rs", "#[derive(Debug, Clone, Serialize, Deserialize)]\npub enum GossipMessage {", "#[derive(Debug, Clone, Serialize, Deserialize)]\n#[serde(tag = \"type\")]\npub enum GossipMessage {", r"R14\.11"),
    ("m78", "C10", "src/streaming/wal.rs", "        Ok(all_entries)\n", "        all_entries.sort_by_key(|e| e.timestamp);\n        Ok(all_entries)\n", r"R10\.8"),
    ("m79", "C11", "src/replication/state/shard_state.rs", "    pub fn apply_remote_delta(&mut self, delta: ReplicationDelta) {\n", "    pub fn apply_remote_delta(&mut self, delta: ReplicationDelta) {\n        if delta.source_replica == self.replica_id && delta.value.timestamp.time < self.lamport_clock.time {\n            return;\n        }\n", r"R11\.7"),
    ("m80", "C08", "src/replication/state/shard_state.rs", "    pub fn drain_pending_deltas(&mut self) -> Vec<ReplicationDelta> {", "    pub fn reset(&mut self) {\n        *self = ShardReplicaState::new(self.replica_id, self.consistency_level);\n    }\n\n    pub fn drain_pending_deltas(&mut self) -> Vec<ReplicationDelta> {", r"R08\.1:.*assign-through-owner-ref"),
    ("m81", "C01", "src/redis/executor/hash_ops.rs", "                RespValue::Array(Some(elements))\n            }\n            Some(_) => {\n                RespValue::err(\"WRONGTYPE Operation against a key holding the wrong kind of value\")\n            }\n            None => RespValue::Array(Some(Vec::new())),", "                RespValue::Array(Some(elements))\n            }\n            _ => RespValue::Array(Some(Vec::new())),", r"R01\.13:execute_hgetall"),
    ("m82", "C01", "src/redis/executor/bitmap_ops.rs", "            Some(_) => (false, true),\n", "            Some(_) => (true, false),\n", r"R01\.13:execute_setbit"),
    ("m83", "C01", "src/redis/data/skiplist.rs", "            .partial_cmp(&score2)\n            .unwrap_or(Ordering::Equal)\n", "            .total_cmp(&score2)\n", r"R01\.15"),
    ("m84", "C01", "src/redis/data/sorted_set.rs", "                if old_score == score {", "                if (old_score - score).abs() < f64::EPSILON {", r"R01\.14"),
    ("m85", "C01", "src/redis/executor/hash_ops.rs", "let new_value = match current.checked_add(increment) {\n                    Some(v) => v,\n                    None => return RespValue::err(\"ERR increment or decrement would overflow\"),\n                };", "let new_value = current.saturating_add(increment);", r"R01\.17"),
    ("m86", "C01", "src/redis/data/sorted_set.rs", "                entry.insert(score);\n                self.skiplist.insert(key_for_skiplist, score);", "                entry.insert(score);\n                if score.is_finite() {\n                    self.skiplist.insert(key_for_skiplist, score);\n                }", r"R01\.18"),
    ("m87", "C06", "src/replication/state/shard_state.rs", "let delta = ReplicationDelta::new(key.clone(), replicated.clone(), self.replica_id);\n        self.replicated_keys.insert(key.clone(), replicated);\n        self.pending_deltas.push(delta.clone());\n        self.enforce_pending_capacity();\n\n        // TigerStyle: Postconditions\n        #[cfg(debug_assertions)]\n        {\n            debug_assert!(\n                self.replicated_keys.contains_key(&key),\n                \"Postcondition: key '{}' must exist in replicated_keys\",\n                key\n            );\n            debug_assert!(\n                self.replicated_keys\n                    .get(&key)\n                    .map(|v| v.is_hash())", "let mut shipped = replicated.clone();\n        shipped.expiry_ms = None;\n        let delta = ReplicationDelta::new(key.clone(), shipped, self.replica_id);\n        self.replicated_keys.insert(key.clone(), replicated);\n        self.pending_deltas.push(delta.clone());\n        self.enforce_pending_capacity();\n\n        // TigerStyle: Postconditions\n        #[cfg(debug_assertions)]\n        {\n            debug_assert!(\n                self.replicated_keys.contains_key(&key),\n                \"Postcondition: key '{}' must exist in replicated_keys\",\n                key\n            );\n            debug_assert!(\n                self.replicated_keys\n                    .get(&key)\n                    .map(|v| v.is_hash())", r"R06\.10"),
    ("m88", "C07", "src/replication/lattice.rs", "        self.time = self.time.max(other.time) + 1;", "        self.time = self.time.max(other.time) + 1;\n        if other.time > self.time { self.replica_id = other.replica_id; }", r"R07\.6"),
    ("m89", "C10", "src/streaming/wal.rs", "    let name = name.strip_prefix(\"wal-\")?.strip_suffix(\".wal\")?;\n", "    let name = name.strip_prefix(\"wal-\")?.strip_suffix(\".wal\")?;\n    if name.len() != 8 {\n        return None;\n    }\n", r"R10\.10"),
    ("m90", "C12", "src/streaming/compaction.rs", "        new_manifest.next_segment_id = new_segment_id + 1;", "        new_manifest.next_segment_id = new_manifest.segments.last().map_or(0, |s| s.id + 1);", r"R12\.11"),
    ("m91", "C15", "src/redis/resp_optimized.rs", "            from = pos + 1;", "            from = pos + 2;", r"R15\.14"),
    ("m92", "C19", "src/replication/hash_ring.rs", "        self.physical_nodes.retain(|n| *n != node);", "        self.physical_nodes.retain(|n| *n != node);\n        self.replication_factor = self.replication_factor.min(self.physical_nodes.len().max(1));", r"R19\.8"),
    ("m93", "C02", "src/production/sharded_actor.rs", "    async fn execute(&self, cmd: Command, virtual_time: VirtualTime) -> RespValue {", "    async fn execute(&self, cmd: Command, virtual_time: VirtualTime) -> RespValue {\n        let _ = tokio::time::timeout(std::time::Duration::from_millis(0), std::future::ready(())).await;", r"R02\.9"),
    ("m94", "C01", "src/redis/executor/set_ops.rs", "            None => RespValue::Array(Some(Vec::new())),", "            None => RespValue::BulkString(None),", r"R01\.19"),
    ("m95", "C10", "src/streaming/wal.rs", "        let wal_writer = WalWriter::new(file_writer, self.current_sequence)?;", "        let wal_writer = WalWriter::new(file_writer, self.current_sequence - 1)?;", r"R10\.12"),
    ("m96", "C19", "src/replication/gossip.rs", "        std::mem::take(&mut self.outbound_queue)\n", "        let mut out = std::mem::take(&mut self.outbound_queue);\n        out.truncate(64);\n        out\n", r"R19\.9"),
    ("m98", "C05", "src/redis/executor/key_ops.rs", "        self.data.clear();\n", "        self.data.clear();\n        self.watched_keys.clear();\n", r"R05\.12"),
    ("m99", "C08", "src/replication/lattice.rs", "    pub fn set(&mut self, value: T, clock: &mut LamportClock) {\n        let ts = clock.tick();", "    pub fn set(&mut self, value: T, clock: &mut LamportClock) {\n        if self.value.is_none() && self.tombstone { return; }\n        let ts = clock.tick();", r"R08\.12"),
]


def for_property(prop):
    return [m for m in M if m[1] == prop]


def run_mutants(prop, jobs=1, only=None):
    out = {"tried": 0, "detected": 0, "invalid": [], "survivors": [], "details": []}
    for (mid, p, rel, old, new, want) in for_property(prop):
        if only and mid not in only:
            continue
        src = os.path.join(facts.REPO, rel)
        text = open(src).read()
        if text.count(old) != 1:
            out["invalid"].append({"id": mid, "why": "anchor text found %d times" % text.count(old)})
            continue
        scratch = tempfile.mkdtemp(prefix="verif-mut-")
        try:
            for name in ("src", "Cargo.toml", "Cargo.lock", ".cargo", "perf_config.toml", "docker-benchmark", "benches", "build.rs", "tests"):
                s = os.path.join(facts.REPO, name)
                if os.path.isdir(s):
                    shutil.copytree(s, os.path.join(scratch, name), symlinks=True)
                elif os.path.exists(s):
                    shutil.copy2(s, os.path.join(scratch, name))
            with open(os.path.join(scratch, rel), "w") as f:
                f.write(text.replace(old, new, 1))
            env = dict(os.environ, VERIF_EVIDENCE_DIR=os.path.join(scratch, "_evidence"), VERIF_REPORT_DIR=os.path.join(scratch, "_reports"))
            r = subprocess.run([sys.executable, os.path.join(facts.VERIF, "check"), prop, "--tier", "quick", "--repo", scratch, "--no-mutants"],
                               cwd=facts.VERIF, env=env, stdout=subprocess.PIPE, stderr=subprocess.STDOUT, text=True)
            keys = re.findall(r"^  ((?:R|BUILD|ANCHOR|INTERNAL)[\w.\-]*:[^ ]*)", r.stdout, flags=re.M)
            out["tried"] += 1
            if any(k.startswith("BUILD") for k in keys):
                out["tried"] -= 1
                out["invalid"].append({"id": mid, "why": "mutant does not compile"})
            elif any(re.search(want, k) for k in keys):
                out["detected"] += 1
                out["details"].append({"id": mid, "file": rel, "reported": [k for k in keys if re.search(want, k)][:3]})
            else:
                out["survivors"].append({"id": mid, "file": rel, "expected": want, "reported": keys[:5]})
        finally:
            shutil.rmtree(scratch, ignore_errors=True)
    return out


if __name__ == "__main__":
    # python3 -m rules.mutants m69 m70 ...   (ad-hoc run of selected mutants)
    ids = set(sys.argv[1:])
    for prop in sorted({m[1] for m in M if m[0] in ids}):
        print(prop, json.dumps(run_mutants(prop, only=ids), indent=1))
