"""C04 — pipelining: exactly one reply per command, in order, however bytes arrive.

All rules run on the pre-lowering coroutine MIR of OptimizedConnectionHandler::{run, try_execute_command,
try_fast_get, try_fast_set} and on the synchronous collectors.
"""
import re
from .facts import callee, op_place, op_local
from .lib import src_of_operand, src_of_place, is_callee, TRANSPARENT, switch_info, all_paths_hit
from . import lib2

H = "production::connection_optimized::OptimizedConnectionHandler::<S>::"
ENCODE = (r"OptimizedConnectionHandler::<S>::encode_resp_into$", r"OptimizedConnectionHandler::<S>::encode_error_into$")
CONSUME = (r"bytes::BytesMut::split_to$", r"bytes::BytesMut::advance$", r"bytes::Buf::advance$", r"bytes::BytesMut::clear$",
           r"bytes::BytesMut::split_off$", r"bytes::BytesMut::truncate$", r"bytes::BytesMut::split$")
BUF_THROUGH = TRANSPARENT + (r"DerefMut>::deref_mut$", r"Deref>::deref$")


def _tag(cfg):
    return "" if cfg == "default" else "@" + cfg


def _is_buf(fn, operand, field="buffer"):
    s = src_of_operand(fn, operand, through_calls=BUF_THROUGH)
    return s.kind == "path" and s.root == "self" and s.fields[:1] == (field,)


_PROG = {"p": None}
_wrap_cache = {}


def encode_wrappers(prog):
    """{fn id: 'one' | 'each'} for private helper methods of the connection handler that wrap the reply encoder:
    'one'  - every path from entry to return passes exactly one encode into self.write_buffer (a single-reply wrapper);
    'each' - the helper loops over a batch of results and every iteration passes an encode (a per-result wrapper).
    A wrapper is treated at its call sites exactly like the encoder it wraps (summaries in the sense of Min et al.)."""
    key = id(prog)
    if key in _wrap_cache:
        return _wrap_cache[key]
    out = {}
    for f in prog.lib_fns():
        if f.file != "src/production/connection_optimized.rs" or f.kind not in ("fn", "method") or f.short in ("encode_resp_into", "encode_error_into"):
            continue
        if "OptimizedConnectionHandler" not in f.id:
            continue
        encs = [(b, t) for b, t in f.calls() if is_callee(t, *ENCODE) and _is_buf(f, t["args"][1], "write_buffer")]
        if not encs or any(fn_t for fn_t in [] ):
            continue
        # must not consume input or execute commands itself (then it is a handler, not a wrapper)
        if any(is_callee(t, *CONSUME) for b, t in f.calls()) or any(is_callee(t, r"ShardedActorState::<.*>::", r"try_execute_command$") for b, t in f.calls()):
            continue
        encb = {b for b, _ in encs}
        heads = lib2.loop_heads(f)
        in_loop = [h for h, (none_t, some_t, nb) in heads.items() if any(eb == some_t or eb in f.reach([some_t], avoid=[h]) for eb in encb)]
        if in_loop:
            if all(lib2.iteration_skips(f, h, encb) is None for h in in_loop):
                out[f.id] = "each"
            continue
        miss = lib2.path_avoiding(f, 0, lambda x: f.term(x)["k"] == "return", lambda x: x in encb, (), from_succ=False)
        twice = any(eb2 in f.reach([eb]) for eb in encb for eb2 in encb)
        if miss is None and not twice:
            out[f.id] = "one"
    _wrap_cache[key] = out
    return out


def _encode_sites(fn, kinds=("one",)):
    out = [(b, t) for b, t in fn.calls() if is_callee(t, *ENCODE) and _is_buf(fn, t["args"][1], "write_buffer")]
    prog = _PROG["p"]
    if prog is not None:
        wr = encode_wrappers(prog)
        for b, t in fn.calls():
            c = prog.local_callee(fn, t)
            if c is not None and wr.get(c.id) in kinds and c.id != fn.id:
                out.append((b, t))
    return out


def _consume_sites(fn):
    out = []
    for b, t in fn.calls():
        if is_callee(t, *CONSUME) and t["args"] and _is_buf(fn, t["args"][0], "buffer"):
            out.append((b, t))
    return out


def run(ck, ctx):
    ck.rule("R04.1", "consume => reply: frames removed from the input buffer by a batch collector flow to the batch pipeline and "
                     "its encode loop on every path; the only accepted way to skip is a branch on emptiness of the batch")
    ck.rule("R04.2", "exactly one reply per executed command: after a consume site (split_to / RespCodec::parse success) every "
                     "path to return passes exactly one encode into write_buffer; NeedMoreData exits are not reachable from a "
                     "consume site")
    ck.rule("R04.3", "malformed frame => error reply: every discard of input (buffer.clear / overflow close) in the read loop is "
                     "followed on all paths by encode_error_into before the flush")
    ck.rule("R04.4", "one flush after the batch: from every reply-producing site of the read loop every path to the next "
                     "stream.read passes write_all(write_buffer) or the `write_buffer.is_empty()` true edge (or leaves the loop)")
    ck.rule("R04.6", "recogniser constants: the offset used to skip a matched prefix equals the length of the byte-string literal "
                     "the recogniser (or its dispatching guard) tested with starts_with")
    ck.rule("R04.7", "segmentation independence of the decoder: a length-prefixed parser never rejects a frame between learning its size "
                     "and knowing it is complete (a read that ends inside a frame yields NeedMoreData, not a protocol error) - shared with C15")
    ck.rule("R04.8", "every read is followed by a decoding pass: from the point where the bytes just read are appended to the input buffer, "
                     "every path to the next stream.read (or out of the handler) passes the decoder (try_execute_command); whether a "
                     "frame is complete is decided by the decoder on the whole buffer, never guessed from the last read alone (a read "
                     "that carries only the tail of a frame - e.g. the LF of a CRLF split across reads - completes it)")
    ck.rule("R04.9", "a connection starts on empty buffers: a BytesMut that goes back into a buffer pool (ArrayQueue<BytesMut>::push) is fresh "
                     "or was cleared on every path to the push - or every pop side clears before handing it out; a handler releases its "
                     "input buffer with whatever unparsed bytes the last client left in it, and the next connection that acquires the "
                     "buffer would have them prepended to its own first command")
    from . import c15
    ck.rule("R04.13", c15.INCOMPLETE_TEXT + " (shared with C15 R15.13)")
    ck.rule("R04.12", "who may empty the connection's buffers: outside the read loop itself (`run`, where R04.3/R04.4 tie every discard to an "
                      "error reply and every clear of write_buffer to a successful write) no function of the handler clears, truncates, "
                      "takes or splits `write_buffer`, and none clears or truncates the input `buffer` - while a command executes, "
                      "write_buffer holds the not-yet-flushed replies to the earlier commands of the same read and buffer holds the "
                      "pipelined commands behind it")
    from . import bounds as _bounds
    ck.rule("R04.10", _bounds.TEXT % "the connection handler (recognisers, collectors, stub-command dispatch) - shared with C15 R15.11")
    ck.nd("that each reply equals the stand-alone reply (C01/C03)")
    ck.nd("segmentation behaviour beyond 'NeedMoreData consumes nothing' (RespCodec's incomplete-input contract is C15)")
    ck.rule("R04.11", "batched pipelines keep one reply per command in command order: every key of a pipelined batch is queued on every path "
                      "and the positional reply vector is written only from the shard responses of the same position (shared with C02 R02.7)")
    for cfg in ctx.configs:
        prog = ctx.prog(cfg)
        ck.configs.append(cfg)
        ck.fn_count += len(prog.fns)
        from . import c02 as _c02
        from .core import Alias as _Alias
        _c02._r027(_Alias(ck, "R02.7", "R04.11"), prog, cfg)
        _r041(ck, prog, cfg)
        _r042(ck, prog, cfg)
        _r043_044(ck, prog, cfg)
        _r046(ck, prog, cfg)
        from . import c15
        c15.prefix_rule(ck, prog, cfg, "R04.7")
        _r049(ck, prog, cfg)
        _r0412(ck, prog, cfg)
        c15.incomplete_rule(ck, prog, cfg, "R04.13")
        _bounds.rule(ck, prog, cfg, "R04.10", ("src/production/connection_optimized.rs",),
                     "a read that ends right behind a command header (or a malformed frame)", floor=9, tag=_tag(cfg))


# ---------------------------------------------------------------------------------------------
def _run_body(prog):
    return prog.one(H + "run::{closure#0}::{closure#0}")


def _r041(ck, prog, cfg):
    _PROG["p"] = prog
    fn = _run_body(prog)
    n = 0
    for coll, pipe in ((r"OptimizedConnectionHandler::<S>::collect_get_keys$", r"ShardedActorState::<T>::fast_batch_get_pipeline$"),
                       (r"OptimizedConnectionHandler::<S>::collect_set_pairs$", r"ShardedActorState::<T>::fast_batch_set_pipeline$")):
        cname = coll.split("::")[-1].rstrip("$")
        colls = [(b, t) for b, t in fn.calls() if is_callee(t, coll)]
        ck.check(len(colls) == 1, "R04.1", "%s:call-exists%s" % (cname, _tag(cfg)), "collector call not found exactly once in run", fn.where())
        # the collector really consumes (otherwise there is nothing to pair)
        cf = prog.find(cname.join(["OptimizedConnectionHandler::<S>::", ""]))
        for cb, ct in colls:
            n += 1
            res = ct["dest"]["l"]
            pipes = []
            for pb, pt in fn.calls():
                if is_callee(pt, pipe):
                    a = src_of_operand(fn, pt["args"][1])
                    if a.kind == "call" and a.term is ct and a.fields[:1] == ("0",):
                        pipes.append((pb, pt))
            # is the collector's recogniser live for well-formed frames? (R04.6 agreement of offset and literal length)
            live = _recogniser_live(prog, cname)
            key = "run:%s[%s]%s" % (cname, "reachable-for-well-formed-frames" if live else "recogniser-dead-for-well-formed-frames", _tag(cfg))
            if not pipes:
                ck.bad("R04.1", key, "the batch returned by %s never reaches the batch pipeline" % cname, fn.where(ct["ln"]))
                continue
            pset = {pb for pb, _ in pipes}
            # exempt edges: emptiness tests on the batch
            exempt = set()
            for sb in fn.reachable_blocks():
                si = switch_info(fn, sb)
                if not si or si["kind"] != "val" or si["src"] is None or si["src"].kind != "rv":
                    continue
                r = si["src"].rv
                if r["k"] != "bin":
                    continue
                a, bsrc = src_of_operand(fn, r["a"]), src_of_operand(fn, r["b"])

                def is_count(x):
                    return (x.kind == "call" and x.term is ct and x.fields[:1] == ("1",)) or \
                           (x.kind == "call" and is_callee(x.term, r"Vec::<.*>::len$") and
                            src_of_operand(fn, x.term["args"][0], through_calls=TRANSPARENT).term is ct)

                def is_zero(x):
                    return x.kind == "const" and re.match(r"^0_usize$", x.text or "") is not None
                tt, ft = lib2.bool_edges(fn, sb)
                if is_count(a) and is_zero(bsrc):
                    if r["op"] in ("Gt", "Ne"):
                        exempt.add((sb, ft))
                    if r["op"] in ("Eq", "Le"):
                        exempt.add((sb, tt))
                if is_zero(a) and is_count(bsrc):
                    if r["op"] in ("Lt", "Ne"):
                        exempt.add((sb, ft))
                    if r["op"] in ("Eq", "Ge"):
                        exempt.add((sb, tt))
            for sb in fn.reachable_blocks():
                si = switch_info(fn, sb)
                if si and si["kind"] == "val" and si["src"] is not None and si["src"].kind == "call" and \
                        is_callee(si["src"].term, r"Vec::<.*>::is_empty$"):
                    recv = src_of_operand(fn, si["src"].term["args"][0], through_calls=TRANSPARENT)
                    if recv.term is ct:
                        tt, ft = lib2.bool_edges(fn, sb)
                        exempt.add((sb, tt))

            def is_stop(b):
                t = fn.term(b)
                return t["k"] == "call" and is_callee(t, r"OptimizedConnectionHandler::<S>::try_execute_command$",
                                                      r"AsyncReadExt::read$", r"AsyncWriteExt::write_all$") or t["k"] == "return"
            path = lib2.path_avoiding(fn, cb, is_stop, lambda b: b in pset, exempt)
            if path is not None:
                # name the branch that skips
                skip = None
                for x, y in zip(path, path[1:]):
                    if fn.term(x)["k"] == "switch" and skip is None and any(pb in fn.reach([x]) for pb in pset):
                        skip = x
                ck.bad("R04.1", key,
                       "frames consumed by %s can leave the batch branch without being executed or answered: the branch at line %s "
                       "skips the pipeline on a condition other than emptiness of the batch (consumed commands get no reply)"
                       % (cname, fn.term(skip)["ln"] if skip is not None else "?"), fn.where(ct["ln"]),
                       path_lines=_lines(fn, path))
            else:
                ck.ok("R04.1", key, "every non-empty batch reaches the pipeline")
            # results are encoded: all paths from the pipeline to the sequential phase pass the result iteration with an encode
            for pb, pt in pipes:
                aw = lib2.await_result(fn, pb)
                good = False
                if aw is not None:
                    vals, refs = lib2.value_aliases(fn, aw[0])
                    for ib, it in fn.calls():
                        if not is_callee(it, r"IntoIterator>::into_iter$"):
                            continue
                        a = op_place(it["args"][0])
                        if a is None or "p" in a:
                            continue
                        if a["l"] not in (vals | refs):
                            # seen through views and parameter bindings of an inlined helper (`&results` -> `&[RespValue]`)
                            sa = src_of_operand(fn, it["args"][0], through_calls=BUF_THROUGH)
                            if not (sa.local in (vals | refs) or (sa.kind == "call" and callee(pt).rsplit("::", 1)[-1] in callee(sa.term))):
                                continue
                        # the loop over the results contains an encode of the iterated element
                        body = fn.reach([ib])
                        has_enc = any(eb in body and ib in ({eb} | fn.reach([eb])) or eb in body for eb, _ in _encode_sites(fn)
                                      if is_callee(fn.term(eb), r"encode_resp_into$"))
                        p2 = lib2.path_avoiding(fn, aw[1], is_stop, lambda b, ib=ib: b == ib, (), False)
                        if has_enc and p2 is None:
                            good = True
                if not good and aw is not None:
                    # ... or the results are handed to a helper that encodes every element
                    wr = encode_wrappers(prog)
                    vals, refs = lib2.value_aliases(fn, aw[0])
                    for hb, ht in fn.calls():
                        c = prog.local_callee(fn, ht)
                        def _is_results(a):
                            if "c" in a:
                                return False
                            if (op_place(a) or {}).get("l") in (vals | refs):
                                return True
                            sa = src_of_operand(fn, a, through_calls=BUF_THROUGH)
                            return sa.local in (vals | refs) or (sa.kind == "call" and callee(pt).rsplit("::", 1)[-1] in callee(sa.term))
                        if c is not None and wr.get(c.id) == "each" and any(_is_results(a) for a in ht["args"]):
                            p2 = lib2.path_avoiding(fn, aw[1], is_stop, lambda b, hb=hb: b == hb, (), False)
                            if p2 is None:
                                good = True
                ck.check(good, "R04.1", "run:%s-results-encoded%s" % (cname, _tag(cfg)),
                         "the replies of the batch pipeline are not all written to the reply buffer on every path", fn.where(pt["ln"]),
                         detail="results iterated and encoded before the sequential phase")
    ck.floor("R04.1" + _tag(cfg), n, 2)


def _same_value(fn, s, local):
    vals, refs = lib2.value_aliases(fn, local)
    return s.local in vals or s.local in refs


def _lines(fn, path):
    out = []
    for b in path:
        ln = fn.term(b).get("ln")
        if ln and (not out or out[-1] != ln):
            out.append(ln)
    return out[:40]


# ---------------------------------------------------------------------------------------------
def _r042(ck, prog, cfg):
    n = 0
    for name in ("try_fast_get::{closure#0}", "try_fast_set::{closure#0}", "try_execute_command::{closure#0}"):
        fn = prog.one(H + name)
        encs = _encode_sites(fn)
        encb = {b for b, _ in encs}
        cons = _consume_sites(fn)
        # RespCodec::parse success edge counts as a consume site
        starts = [(b, t, "split_to") for b, t in cons]
        for b, t in fn.calls():
            if is_callee(t, r"resp_optimized::RespCodec::parse$") and _is_buf(fn, t["args"][0], "buffer"):
                for (swb, okt, errt) in lib2.ok_edges(fn, t["dest"]["l"]):
                    # Ok(Some(..)) : discriminant of the Option inside
                    starts.append((okt, t, "parse-ok"))
        short = name.split("::")[0]
        if short != "try_fast_path":
            ck.check(len(starts) >= 1, "R04.2", "%s:has-consume-site%s" % (short, _tag(cfg)), "no consume site found (anchor lost)", fn.where())
        for sb, st_, kind in starts:
            n += 1
            key = "%s:%s%s" % (short, kind, _tag(cfg))
            if kind == "parse-ok":
                # only the Some edge consumed something: find the Option discriminant switch dominated by okt
                some_t = None
                for b2 in sorted(fn.reachable_blocks()):
                    si = switch_info(fn, b2)
                    if si and si["kind"] == "discr" and si["ty"].startswith("std::option::Option<redis::resp") and fn.dominates(sb, b2):
                        from .lib import edge_targets
                        some_t = edge_targets(fn, b2, 1)
                        none_t = edge_targets(fn, b2, 0)
                        break
                if some_t is None:
                    ck.bad("R04.2", key, "cannot locate the Ok(Some(frame)) edge of RespCodec::parse (anchor lost)", fn.where(st_["ln"]))
                    continue
                start_block, from_succ = some_t, False
            else:
                start_block, from_succ = sb, True
            path = lib2.path_avoiding(fn, start_block, lambda b: fn.term(b)["k"] == "return", lambda b: b in encb, (), from_succ)
            ck.check(path is None, "R04.2", key + ":reply-on-all-paths",
                     "a path from consuming a frame to return encodes no reply: the command is executed or dropped in silence and "
                     "every later reply is shifted by one", fn.where(st_["ln"]), detail="every path encodes a reply",
                     path_lines=_lines(fn, path) if path else None)
        # at most one encode per path
        for eb, et in encs:
            again = [b for b in fn.reach([eb]) if b in encb]
            ck.check(not again, "R04.2", "%s:single-encode#%s%s" % (short, _ord(fn, eb, encs), _tag(cfg)),
                     "a second reply can be encoded after this one for the same command", fn.where(et["ln"]),
                     detail="no second encode reachable")
        # NeedMoreData exits not reachable from a consume site
        for b, i, st in fn.stmts():
            rv = st["rv"]
            if rv["k"] == "agg" and rv["n"].endswith("::NeedMoreData") and st["lhs"] == {"l": 0}:
                for cb, ct in cons:
                    ck.check(b not in fn.reach([cb]), "R04.2", "%s:needmore-after-consume%s" % (short, _tag(cfg)),
                             "NeedMoreData is returned after bytes were already consumed from the buffer", fn.where(st["ln"]),
                             detail="NeedMoreData consumes nothing")
        # Executed/Handled results only after an encode
        for b, i, st in fn.stmts():
            rv = st["rv"]
            if rv["k"] == "agg" and (rv["n"].endswith("CommandResult::Executed") or rv["n"].endswith("FastPathResult::Handled")):
                dom = any(fn.dominates(eb, b) for eb in encb) or \
                    lib2.path_avoiding(fn, 0, lambda x, b=b: x == b, lambda x: x in encb, (), False) is None
                if not dom:
                    # delegated: the reply was encoded by the fast path (its own Handled exits are checked above)
                    for g in lib2.guards(fn, b):
                        si = g["si"]
                        if si and si["kind"] == "discr" and "FastPathResult" in si["ty"]:
                            vname = _variant_of(prog, si["ty"], g)
                            if vname == "Handled":
                                dom = True
                ck.check(dom, "R04.2", "%s:executed-after-encode#%d%s" % (short, i, _tag(cfg)),
                         "`Executed/Handled` is reported on a path that wrote no reply", fn.where(st["ln"]), detail="encode precedes Executed")
    ck.floor("R04.2" + _tag(cfg), n, 3)


def _ord(fn, b, sites):
    ss = sorted((t["ln"], bb) for bb, t in sites)
    for i, (ln, bb) in enumerate(ss):
        if bb == b:
            return i
    return -1


# ---------------------------------------------------------------------------------------------
def _r043_044(ck, prog, cfg):
    fn = _run_body(prog)
    encs = _encode_sites(fn, kinds=("one", "each"))
    err_encb = {b for b, t in encs if is_callee(t, r"encode_error_into$")}
    reads = [b for b, t in fn.calls() if is_callee(t, r"AsyncReadExt::read$")]
    writes = [b for b, t in fn.calls() if is_callee(t, r"AsyncWriteExt::write_all$") and
              _is_buf(fn, t["args"][1], "write_buffer")]
    ck.check(len(reads) == 1, "R04.4", "read-site" + _tag(cfg), "expected exactly one stream.read in the loop", fn.where())
    ck.floor("R04.4-writes" + _tag(cfg), len(writes), 2)
    # R04.3: discards
    n3 = 0
    for b, t in _consume_sites(fn):
        if not is_callee(t, r"BytesMut::clear$"):
            continue
        n3 += 1
        path = lib2.path_avoiding(fn, b, lambda x: x in writes or x in reads or fn.term(x)["k"] == "return", lambda x: x in err_encb)
        ck.check(path is None, "R04.3", "run:clear#%d%s" % (n3, _tag(cfg)),
                 "input is discarded without an error reply on some path: a malformed frame produces silence", fn.where(t["ln"]),
                 detail="buffer.clear() followed by encode_error_into")
    # wholesale replacement / shortening of the input buffer in the loop (mem::replace/take/swap, truncate, split_off ..) is a discard too:
    # the loop only consumes complete frames, so the buffer can still hold the first bytes of the next pipelined command
    for b, t in fn.calls():
        if not t.get("args"):
            continue
        if is_callee(t, r"^std::mem::(take|replace|swap)::<bytes::BytesMut>$", r"BytesMut::(truncate|split|split_off|set_len|resize)$") and \
                any(_is_buf(fn, a, "buffer") for a in t["args"][:2]):
            n3 += 1
            path = lib2.path_avoiding(fn, b, lambda x: x in writes or x in reads or fn.term(x)["k"] == "return", lambda x: x in err_encb)
            ck.check(path is None, "R04.3", "run:discard(%s)#%d%s" % (callee(t).rsplit("::", 1)[-1].split("<")[0], n3, _tag(cfg)),
                     "the read loop throws away what is left in the input buffer (%s) without an error reply: the unparsed prefix of the next "
                     "pipelined command is lost, the rest of that frame parses as garbage and the commands behind it get no reply"
                     % callee(t).rsplit("::", 1)[-1], fn.where(t["ln"]), detail="a discard is followed by encode_error_into")
    ck.floor("R04.3" + _tag(cfg), n3, 1)
    # the ParseError arm exists: switch over CommandResult with a ParseError edge reaching an error encode
    tec = [(b, t) for b, t in fn.calls() if is_callee(t, r"try_execute_command$")]
    ck.check(len(tec) == 1, "R04.3", "sequential-call" + _tag(cfg), "try_execute_command call not found exactly once", fn.where())
    # R04.8: append => decode before the next read
    apps = [(b, t) for b, t in fn.calls() if is_callee(t, r"BytesMut::extend_from_slice$", r"BufMut>::put_slice$", r"Extend<.*>>::extend$")
            and _is_buf(fn, t["args"][0], "buffer")]
    ck.floor("R04.8" + _tag(cfg), len(apps), 1)
    tecb = {b for b, _ in tec}
    for k, (b, t) in enumerate(apps):
        path = lib2.path_avoiding(fn, b, lambda x: x in reads or fn.term(x)["k"] == "return", lambda x: x in tecb)
        ck.check(path is None, "R04.8", "run:append#%d:decoded-before-next-read%s" % (k, _tag(cfg)),
                 "after the bytes of a read were appended to the input buffer the handler can go back to reading without running the decoder "
                 "(lines %s): a command completed by that read gets no reply until some later read arrives - a client waiting for it hangs"
                 % _lines(fn, path or [])[:8], fn.where(t["ln"]), detail="try_execute_command on every path to the next read")
    # R04.4: flush
    exempt = set()
    for sb in fn.reachable_blocks():
        si = switch_info(fn, sb)
        if si and si["kind"] == "val" and si["src"] is not None and si["src"].kind == "call" and \
                is_callee(si["src"].term, r"BytesMut::is_empty$") and _is_buf(fn, si["src"].term["args"][0], "write_buffer"):
            tt, ft = lib2.bool_edges(fn, sb)
            exempt.add((sb, tt))
        # negated form: `!is_empty`
        if si and si["kind"] == "val" and si["src"] is not None and si["src"].kind == "rv" and si["src"].rv["k"] == "un" and si["src"].rv["op"] == "Not":
            inner = src_of_operand(fn, si["src"].rv["a"])
            if inner.kind == "call" and is_callee(inner.term, r"BytesMut::is_empty$") and _is_buf(fn, inner.term["args"][0], "write_buffer"):
                tt, ft = lib2.bool_edges(fn, sb)
                exempt.add((sb, ft))
    n4 = 0
    starts = [(b, t) for b, t in encs] + tec
    for b, t in starts:
        if b in writes:
            continue
        n4 += 1
        start_block = b
        if t in [x[1] for x in tec]:
            aw = lib2.await_result(fn, b)
            start_block = aw[1] if aw else b
        path = lib2.path_avoiding(fn, start_block, lambda x: x in reads, lambda x: x in writes, exempt)
        what = callee(t).rsplit("::", 1)[-1]
        ck.check(path is None, "R04.4", "run:flush-after:%s#%s%s" % (what, _ord(fn, b, starts), _tag(cfg)),
                 "replies written to write_buffer can be left unflushed when the loop goes back to stream.read (the flush is "
                 "skipped on a condition other than `write_buffer.is_empty()`): the client waits for replies that are never sent",
                 fn.where(t["ln"]), detail="write_all or is_empty() edge on every path to the next read",
                 path_lines=_lines(fn, path) if path else None)
    ck.floor("R04.4" + _tag(cfg), n4, 4)
    # what was handed to the socket leaves write_buffer before anything else is appended or written (no reply is sent twice)
    clears = {b for b, t in fn.calls() if is_callee(t, r"BytesMut::clear$") and _is_buf(fn, t["args"][0], "write_buffer")}
    encb = {b for b, t in encs} | {b for b, t in tec}
    for k, wb in enumerate(sorted(writes)):
        edges = lib2.awaited_ok_edges(fn, wb)
        if not edges:
            # result discarded (`let _ = ..` before closing the connection): judge every continuation
            aw = lib2.await_result(fn, wb)
            edges = [(None, aw[1] if aw else wb, None)]
        for (swb, okt, errt) in edges:
            path = lib2.path_avoiding(fn, okt, lambda x: x in encb or x in writes or x in reads, lambda x: x in clears, (), from_succ=(swb is None))
            ck.check(path is None, "R04.4", "run:write#%d:cleared-before-reuse%s" % (k, _tag(cfg)),
                     "after a successful write_all(write_buffer) the loop can append further replies, write again or go back to read "
                     "without clearing write_buffer: bytes already sent are sent again (duplicated replies, every later reply out of "
                     "step)", fn.where(fn.term(wb)["ln"]), detail="write_buffer.clear() follows the write on every path",
                     path_lines=_lines(fn, path) if path else None)
    # write_buffer.clear() only after a successful write_all
    for b, t in fn.calls():
        if is_callee(t, r"BytesMut::clear$") and _is_buf(fn, t["args"][0], "write_buffer"):
            good = any(lib2.dominated_by_ok(fn, wb, b) for wb in writes)
            ck.check(good, "R04.4", "run:write_buffer-clear-after-write%s" % _tag(cfg),
                     "write_buffer is cleared on a path where write_all has not succeeded (replies lost)", fn.where(t["ln"]),
                     detail="clear dominated by write_all Ok")


# ---------------------------------------------------------------------------------------------
def _r046(ck, prog, cfg):
    n = 0
    fns = [f for f in prog.lib_fns() if f.file == "src/production/connection_optimized.rs"]
    by_id = {f.id: f for f in fns}
    # literal lengths per function
    lits = {}
    for f in fns:
        for b, t in f.calls():
            if is_callee(t, r"<impl \[u8\]>::starts_with$", r"<impl \[T\]>::starts_with$"):
                a = t["args"][1]
                s = src_of_operand(f, a)
                ty = None
                if s.kind == "const":
                    # find the type of the literal through the defining statement
                    pass
                l = op_local(a)
                lit_len = _literal_len(f, a)
                if lit_len is not None:
                    lits.setdefault(f.id, []).append((lit_len, b, t["ln"]))
    for f in fns:
        offs = []
        for b, i, st in f.stmts():
            rv = st["rv"]
            if rv["k"] == "agg" and rv["n"] == "std::ops::RangeFrom" and "c" in rv["ops"][0] and "v" in rv["ops"][0]:
                offs.append((int(rv["ops"][0]["v"]), rv["ops"][0]["c"].rsplit("::", 1)[-1], st["ln"]))
        if not offs:
            continue
        mine = lits.get(f.id)
        src_fn = f.id
        if not mine:
            # look in callers whose guard dispatches to this function
            for g in fns:
                for b, t in g.calls():
                    c = prog.local_callee(g, t)
                    if c is not None and (c.id == f.id or (f.parent and c.id == f.parent)) and g.id in lits:
                        gl = [(ln_, bb, l_) for (ln_, bb, l_) in lits[g.id]]
                        mine = gl
                        src_fn = g.id
        if not mine:
            continue
        lens = sorted({x[0] for x in mine})
        for off, cname, ln in offs:
            n += 1
            ck.check(lens == [off], "R04.6", "%s:%s%s" % (f.id.replace(H, ""), cname, _tag(cfg)),
                     "prefix offset %s = %d but the byte-string literal(s) tested with starts_with are %s bytes long: the recogniser "
                     "looks at the wrong byte (for well-formed frames it never matches; for a malformed frame with a stray byte it "
                     "answers as if it were a well-formed command)" % (cname, off, lens), f.where(ln),
                     detail="offset == literal length (%d)" % off)
    ck.floor("R04.6" + _tag(cfg), n, 4)


def _literal_len(f, operand):
    """length N of a `&[u8; N]` byte-string literal operand (through unsize casts)"""
    o = operand
    for _ in range(6):
        if "c" in o:
            m = re.match(r"^&\[u8; (\d+)\]$", o.get("t", ""))
            return int(m.group(1)) if m else None
        pl = op_place(o)
        if pl is None or pl.get("p", []) not in ([], ["*"]):
            return None
        defs = f.defs().get(pl["l"], [])
        if len(defs) != 1 or defs[0][2] != "assign":
            return None
        rv = defs[0][3]
        if rv["k"] in ("use", "cast"):
            o = rv["a"]
        elif rv["k"] == "ref":
            o = {"cp": rv["pl"]}
        else:
            return None
    return None


def _variant_of(prog, ty, g):
    a = prog.adts.get(ty.split("<")[0])
    if not a or g["value"] == "else":
        return None
    try:
        return a["variants"][int(g["value"])]["n"]
    except Exception:
        return None


def _recogniser_live(prog, cname):
    f = prog.one(H + cname)
    lens = set()
    for b, t in f.calls():
        if is_callee(t, r"<impl \[u8\]>::starts_with$", r"<impl \[T\]>::starts_with$"):
            l = _literal_len(f, t["args"][1])
            if l is not None:
                lens.add(l)
    offs = set()
    for b, i, st in f.stmts():
        rv = st["rv"]
        if rv["k"] == "agg" and rv["n"] == "std::ops::RangeFrom" and "c" in rv["ops"][0] and "v" in rv["ops"][0]:
            offs.add(int(rv["ops"][0]["v"]))
    return bool(lens) and lens == offs


# ---------------------------------------------------------------------------------------------
def _r049(ck, prog, cfg):
    """recycled buffers are empty"""
    pushes, pops = [], []
    for f in prog.lib_fns():
        if "::tests::" in f.id:
            continue
        for b, t in f.calls():
            if is_callee(t, r"ArrayQueue::<bytes::BytesMut>::push$"):
                pushes.append((f, b, t))
            elif is_callee(t, r"ArrayQueue::<bytes::BytesMut>::pop$"):
                pops.append((f, b, t))
    ck.floor("R04.9" + _tag(cfg), len(pushes), 2)
    # pop side: does every function that pops clear what it popped before returning it?
    pop_clears = bool(pops)
    for f, b, t in pops:
        clears = {bb for bb, tt in f.calls() if is_callee(tt, r"BytesMut::clear$")}
        okp, _ = all_paths_hit(f, (b, len(f.blocks[b]["st"])), lambda bb, i0: bb in clears)
        if not okp:
            pop_clears = False
    k = 0
    for f, b, t in sorted(pushes, key=lambda x: (x[0].id, x[2]["ln"])):
        k += 1
        src = src_of_operand(f, t["args"][1])
        fresh = src.kind == "call" and is_callee(src.term, r"BytesMut::(with_capacity|new|zeroed)$")
        cleared = False
        if not fresh:
            al = lib2.value_aliases(f, op_local(t["args"][1])) if op_local(t["args"][1]) is not None else set()
            for bb, tt in f.calls():
                if is_callee(tt, r"BytesMut::clear$") and f.dominates(bb, b) and bb != b:
                    r = src_of_operand(f, tt["args"][0])
                    rl = r.local if r.kind in ("path", "multi") else None
                    if rl is None or not al or rl in al or (r.kind == "path" and src.kind == "path" and r.root == src.root):
                        cleared = True
        ck.check(fresh or cleared or pop_clears, "R04.9", "%s:push#%d%s" % (f.id.replace("production::", "").replace("redis::", ""), k, _tag(cfg)),
                 "a buffer is returned to the pool on a path that does not clear it (and the acquiring side does not clear either): the next "
                 "connection that takes this buffer starts with the previous client's unparsed bytes (or unsent replies) in front of its own",
                 f.where(t["ln"]), detail="fresh buffer" if fresh else ("clear() dominates the push" if cleared else "every pop clears"))


def _r0412(ck, prog, cfg):
    runb = _run_body(prog)
    own = {f.id for f in prog.with_children(runb)} | {runb.id}
    n = k = 0
    for f in prog.lib_fns():
        if f.file != "src/production/connection_optimized.rs" or "::tests::" in f.id or f.id in own:
            continue
        if "OptimizedConnectionHandler" not in f.id:
            continue
        n += 1
        for b, t in f.calls():
            if not t.get("args"):
                continue
            shrink_all = is_callee(t, r"BytesMut::(clear|truncate|split|split_to|split_off|advance|resize|set_len)$", r"Buf>::advance$", r"^std::mem::(take|replace|swap)::<bytes::BytesMut>$")
            hard = is_callee(t, r"BytesMut::(clear|truncate|split|resize|set_len)$", r"^std::mem::(take|replace|swap)::<bytes::BytesMut>$")
            for a in t["args"][:2]:
                if shrink_all and _is_buf(f, a, "write_buffer"):
                    k += 1
                    fid = re.sub(r"\{closure#\d+\}", "{closure}", f.id.replace(H, ""))
                    ck.bad("R04.12", "%s:write_buffer.%s#%d%s" % (fid, callee(t).rsplit("::", 1)[-1].split("<")[0], k, _tag(cfg)),
                           "write_buffer is emptied/shortened outside the read loop: at that moment it holds the unflushed replies to the commands "
                           "that preceded this one in the same read - they are never sent (the reply count depends on how the stream was split "
                           "into reads)", f.where(t["ln"]))
                elif hard and _is_buf(f, a, "buffer"):
                    k += 1
                    fid = re.sub(r"\{closure#\d+\}", "{closure}", f.id.replace(H, ""))
                    ck.bad("R04.12", "%s:buffer.%s#%d%s" % (fid, callee(t).rsplit("::", 1)[-1].split("<")[0], k, _tag(cfg)),
                           "the input buffer is cleared outside the read loop: pipelined commands that arrived in the same read behind the current "
                           "one are dropped before they are parsed and get no reply", f.where(t["ln"]))
    ck.floor("R04.12:functions-scanned" + _tag(cfg), n, 10)
    if k == 0:
        ck.ok("R04.12", "buffers-emptied-only-by-the-read-loop" + _tag(cfg), "%d handler functions scanned" % n)
