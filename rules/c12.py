"""C12 — streaming persistence is crash-consistent at every step, loses nothing confirmed.

Ordering (dominance) rules over the object-store calls of flush / compaction / manifest save, a
who-may-use rule on the manifest key, and a buffer-restore rule for failed flushes.
"""
import re
from .facts import callee, op_place
from .lib import src_of_operand, src_of_place, is_callee, all_paths_hit, TRANSPARENT, switch_info
from . import lib2

STORE_PUT = r"object_store::ObjectStore>::put$"
STORE_DELETE = r"object_store::ObjectStore>::delete$"
STORE_RENAME = r"object_store::ObjectStore>::rename$"
SAVE = r"ManifestManager::<.*>::save$"
LOAD = r"ManifestManager::<.*>::(load|load_or_create)$"
FILES = ("src/streaming/persistence.rs", "src/streaming/manifest.rs", "src/streaming/compaction.rs",
         "src/streaming/write_buffer.rs", "src/streaming/checkpoint.rs", "src/streaming/integration.rs",
         "src/streaming/recovery.rs")


def _tag(cfg):
    return "" if cfg == "default" else "@" + cfg


def _ord(fn, b, pat):
    sites = sorted((t["ln"], bb) for bb, t in fn.calls() if is_callee(t, pat))
    for i, (ln, bb) in enumerate(sites):
        if bb == b:
            return i
    return -1


def run(ck, ctx):
    ck.rule("R12.1", "object before pointer: every ManifestManager::save(m) that follows Manifest::add_segment(m, info) is "
                     "dominated by the awaited Ok edge of ObjectStore::put(info.key, ..)")
    ck.rule("R12.2", "pointer before delete: every ObjectStore::delete in flush/compaction code is dominated by the awaited Ok "
                     "edge of a ManifestManager::save in the same function")
    ck.rule("R12.3", "atomic pointer swap: ManifestManager::save = put(temp_key) Ok-dominates rename(temp_key, manifest_key), "
                     "both errors propagated; the manifest key is never the target of put/delete nor the source of rename")
    ck.rule("R12.4", "a failed flush does not discard the buffer: after mem::take(&mut self.buffer) every path to an Err return "
                     "writes the taken deltas back into self.buffer")
    ck.rule("R12.5", "flush reports Ok(segment: Some) only after the manifest save succeeded (dominance by the awaited Ok edge)")
    ck.rule("R12.6", "a manifest about to be saved derives from a load in the same function whose failure is propagated "
                     "(no fallback to a cached/stale manifest); every save/put result is propagated, not discarded")
    ck.rule("R12.7", "a flush persists everything it took: in every function that feeds a SegmentWriter (flush, compaction, legacy write "
                     "buffer) each iteration of the loop over the deltas passes SegmentWriter::write_delta, the call's error is "
                     "propagated, and the loop runs over the taken batch itself (no filtering/truncating adaptor in between)")
    ck.nd("enumeration of crash points with partial writes (needs the simulated store's semantics at run time)")
    ck.nd("that the saved manifest's contents list exactly the surviving objects (value-level)")
    ck.rule("R12.8", WRITER_TEXT)
    ck.rule("R12.11", IDS_TEXT)
    from . import c14 as _c14lt
    ck.rule("R12.13", _c14lt.RECORD_LIMIT_TEXT + " (shared with C14 R14.17: a confirmed flush must stay recoverable)")
    ck.rule("R12.12", "nothing is deleted that a manifest may still come to reference: a key handed to ObjectStore::delete in compaction code comes from "
                      "the segment entries compaction itself folded and unlisted, never from a listing of the store (shared with C13 R13.17)")
    ck.rule("R12.9", "compaction unlists exactly what it folded: manifest entries are dropped by membership in the list of segments whose deltas "
                     "went into the output, never by an ordering test on ids (the folded set is not a prefix: large and unreadable segments are "
                     "skipped) - a confirmed segment that is unlisted without having been folded is lost to recovery (shared with C13 R13.6)")
    ck.rule("R12.10", "compaction never replaces a newer confirmed value by an older one: in the per-key fold an entry is overwritten only behind "
                      "`key absent` or `incoming stamp > stored stamp` (segment ids do not order ages: a compacted segment gets a fresh, higher id) "
                      "(shared with C13 R13.1; the open merge-operator finding stays with C13)")
    for cfg in ctx.configs:
        prog = ctx.prog(cfg)
        ck.configs.append(cfg)
        ck.fn_count += len(prog.fns)
        fns = [f for f in prog.lib_fns() if f.file in FILES]
        _r121(ck, prog, fns, cfg)
        _r122(ck, prog, fns, cfg)
        _r123(ck, prog, fns, cfg)
        _r124(ck, prog, fns, cfg)
        _r125(ck, prog, cfg)
        _r126(ck, prog, fns, cfg)
        _r127(ck, prog, fns, cfg)
        writer_rule(ck, prog, cfg, "R12.8")
        ids_rule(ck, prog, cfg, "R12.11")
        from . import c14 as _c14l
        _c14l.record_limit_rule(ck, prog, cfg, "R12.13")
        from . import c13 as _c13d
        from .core import Only as _OnlyD
        _c13d._r1317(_OnlyD(ck, {"R13.17": "R12.12"}), prog, cfg)
        from . import c13 as _c13
        from .core import Only as _Only
        _c13._rules(_Only(ck, {"R13.6": "R12.9", "R13.1": "R12.10"}, skip_keys=("R13.1:compact:fold-operator",)), prog, cfg)


def _key_root(fn, operand):
    s = src_of_operand(fn, operand, through_calls=TRANSPARENT + (r"Deref>::deref$",))
    return s


def _r121(ck, prog, fns, cfg, rid="R12.1", floor=2):
    n = 0
    for fn in fns:
        adds = [(b, t) for b, t in fn.calls() if is_callee(t, r"manifest::Manifest::add_segment$")]
        saves = [(b, t) for b, t in fn.calls() if is_callee(t, SAVE)]
        puts = [(b, t) for b, t in fn.calls() if is_callee(t, STORE_PUT)]
        if not adds or not saves:
            continue
        for ab, at in adds:
            # key local of the SegmentInfo passed
            info = src_of_operand(fn, at["args"][1], through_calls=(r"::clone$",))
            keyroot = None
            if info.kind == "path" and info.local is not None and info.local <= fn.d["argc"] + 8 and fn.id.startswith("streaming::manifest::ManifestManager"):
                # ManifestManager::add_segment(info): the object is the caller's responsibility; callers are checked below
                continue
            if info.kind == "agg" and info.rv["n"].endswith("SegmentInfo"):
                idx = info.rv["fs"].index("key")
                keyroot = _key_root(fn, info.rv["ops"][idx])
            for sb, st_ in saves:
                if not (sb == ab or sb in fn.reach([ab])):
                    continue
                n += 1
                key = "%s:save#%d%s" % (fn.id, _ord(fn, sb, SAVE), _tag(cfg))
                good = False
                why = "no ObjectStore::put of the registered segment key dominates this save"
                for pb, pt in puts:
                    pk = _key_root(fn, pt["args"][1])
                    same = keyroot is not None and pk.kind == keyroot.kind and pk.path() == keyroot.path() and pk.local == keyroot.local
                    if not same:
                        continue
                    if lib2.dominated_by_ok(fn, pb, sb):
                        good = True
                    else:
                        why = "put of the segment object does not Ok-dominate the manifest save (pointer may be written first / put error ignored)"
                ck.check(good, rid, key, why, fn.where(st_["ln"]),
                         detail="put(%s) Ok-dominates save" % (keyroot.path() if keyroot else "?"))
    # callers of the convenience API ManifestManager::add_segment must have put the object first
    for fn in prog.lib_fns():
        for b, t in fn.calls():
            if is_callee(t, r"ManifestManager::<.*>::add_segment$"):
                puts = [(pb, pt) for pb, pt in fn.calls() if is_callee(pt, STORE_PUT)]
                n += 1
                ck.check(any(lib2.dominated_by_ok(fn, pb, b) for pb, _ in puts), rid,
                         "%s:add_segment-caller%s" % (fn.id, _tag(cfg)),
                         "ManifestManager::add_segment is called without a dominating successful put of the segment object",
                         fn.where(t["ln"]))
    ck.floor(rid + ("-obj" if rid != "R12.1" else "") + _tag(cfg), n, floor)


def _r122(ck, prog, fns, cfg):
    n = 0
    for fn in fns:
        dels = [(b, t) for b, t in fn.calls() if is_callee(t, STORE_DELETE)]
        if not dels:
            continue
        saves = [(b, t) for b, t in fn.calls() if is_callee(t, SAVE)]
        for db, dt in dels:
            n += 1
            key = "%s:delete#%d%s" % (fn.id, _ord(fn, db, STORE_DELETE), _tag(cfg))
            good = any(lib2.dominated_by_ok(fn, sb, db) for sb, _ in saves)
            ck.check(good, "R12.2", key,
                     "an object is deleted on a path where no manifest save has succeeded yet: a crash in between leaves the "
                     "manifest referencing a missing object", fn.where(dt["ln"]), detail="delete after save Ok")
    ck.floor("R12.2" + _tag(cfg), n, 2)


def _r123(ck, prog, fns, cfg):
    save = prog.one("streaming::manifest::ManifestManager::<S>::save::{closure#0}")
    puts = [(b, t) for b, t in save.calls() if is_callee(t, STORE_PUT)]
    rens = [(b, t) for b, t in save.calls() if is_callee(t, STORE_RENAME)]
    ck.check(len(puts) == 1 and len(rens) == 1, "R12.3", "save-shape" + _tag(cfg),
             "ManifestManager::save no longer has exactly one put and one rename (%d, %d)" % (len(puts), len(rens)), save.where())
    if len(puts) == 1 and len(rens) == 1:
        pb, pt = puts[0]
        rb, rt = rens[0]
        pk = _key_root(save, pt["args"][1]).path()
        rsrc = _key_root(save, rt["args"][1]).path()
        rdst = _key_root(save, rt["args"][2]).path()
        ck.check(pk == "self.temp_key", "R12.3", "put-temp" + _tag(cfg), "save puts %s, not the temp key" % pk, save.where(pt["ln"]),
                 detail="put(self.temp_key)")
        ck.check(rsrc == "self.temp_key" and rdst == "self.manifest_key", "R12.3", "rename-temp-to-manifest" + _tag(cfg),
                 "rename(%s -> %s) is not temp -> manifest" % (rsrc, rdst), save.where(rt["ln"]), detail="rename(temp -> manifest)")
        ck.check(lib2.dominated_by_ok(save, pb, rb), "R12.3", "put-before-rename" + _tag(cfg),
                 "the rename is not dominated by a successful put of the temp object", save.where(rt["ln"]),
                 detail="put Ok-dominates rename")
        ck.check(lib2.awaited_error_propagates(save, rb), "R12.3", "rename-error-propagated" + _tag(cfg),
                 "the rename's failure is not returned to the caller", save.where(rt["ln"]), detail="rename error -> Err return")
        # nothing between put and rename touches the store
        between = save.reach([pb]) - save.reach([rb]) - {rb}
        for b, t in save.calls():
            if b in between and is_callee(t, r"object_store::ObjectStore>::(put|delete|rename)$") and b not in (pb, rb):
                ck.bad("R12.3", "store-op-between-put-and-rename:%s%s" % (callee(t).rsplit("::", 1)[-1], _tag(cfg)),
                       "a mutating object-store call sits between the temp put and the rename: the pointer swap is no longer one step",
                       save.where(t["ln"]))
    # who may use the manifest key
    n = 0
    for fn in prog.lib_fns():
        if not fn.file.startswith("src/streaming/"):
            continue
        for b, t in fn.calls():
            if not is_callee(t, r"object_store::ObjectStore>::(put|delete|rename|get|exists)$"):
                continue
            op = callee(t).rsplit("::", 1)[-1]
            for i, a in enumerate(t["args"][1:], 1):
                s = _key_root(fn, a)
                if s.kind == "path" and s.fields and s.fields[-1] == "manifest_key":
                    n += 1
                    allowed = op in ("get", "exists") or (op == "rename" and i == 2)
                    if op == "rename" and i == 2:
                        # installing an object as the live manifest is only sound for an object this very function wrote completely:
                        # the rename must be dominated by the awaited Ok of a put of its source key (a leftover temp object may be torn)
                        srck = _key_root(fn, t["args"][1]).path()
                        wrote = [pb for pb, pt in fn.calls() if is_callee(pt, STORE_PUT) and _key_root(fn, pt["args"][1]).path() == srck
                                 and lib2.dominated_by_ok(fn, pb, b)]
                        ck.check(bool(wrote), "R12.3", "manifest-installed-from-own-put:%s%s" % (fn.id, _tag(cfg)),
                                 "an object (%s) is renamed over the live manifest in a function that did not itself write it successfully just "
                                 "before: a temp object left by an interrupted or torn put becomes the manifest, and every confirmed segment it "
                                 "does not list is lost" % srck, fn.where(t["ln"]), detail="put(temp) Ok-dominates rename(temp -> manifest)")
                    ck.check(allowed, "R12.3", "manifest-key-use:%s:%s#%d%s" % (fn.id, op, i, _tag(cfg)),
                             "the live manifest key is passed to ObjectStore::%s (arg %d): only get/exists and rename-destination "
                             "may touch it, otherwise there is an instant with no or a partial manifest" % (op, i),
                             fn.where(t["ln"]), detail="manifest_key used by %s" % op)
    ck.floor("R12.3-uses" + _tag(cfg), n, 3)


RESTORE = (r"Vec::<.*>::(extend|append|push|insert|extend_from_slice|splice)$", r"Extend<.*>>::extend$", r"mem::replace", r"mem::swap")


def _r124(ck, prog, fns, cfg):
    n = 0
    for fn in fns:
        for b, t in fn.calls():
            if not is_callee(t, r"mem::take"):
                continue
            s = src_of_operand(fn, t["args"][0], through_calls=TRANSPARENT)
            if not (s.kind in ("path", "call") and s.fields and s.fields[-1] in ("buffer", "deltas")):
                continue
            if "ReplicationDelta" not in (t.get("fnargs") or ""):
                continue
            n += 1
            bufpath = s.path()
            field = s.fields[-1]

            def restores(bb, i0, fn=fn, field=field):
                blk = fn.blocks[bb]
                for j, st in enumerate(blk["st"]):
                    if j >= i0:
                        ls = src_of_place(fn, st["lhs"], through_calls=TRANSPARENT)
                        if ls.fields and ls.fields[-1] == field and st["rv"]["k"] == "use":
                            return True
                tt = blk["t"]
                if tt["k"] == "call" and is_callee(tt, *RESTORE):
                    for a in tt["args"][:1]:
                        rs = src_of_operand(fn, a, through_calls=TRANSPARENT)
                        if rs.fields and rs.fields[-1] == field:
                            return True
                return False
            # error exits: blocks assigning _0 an Err / from_residual, reachable from the take
            reach = fn.reach([b])
            bad_paths = []
            for eb in sorted(reach):
                rets = lib2.returns_in(fn, {eb})
                if not any(k == "err" for k, _ in rets):
                    continue
                # is eb reachable from the take without passing a restoring block?
                okp = _reach_avoiding(fn, b, eb, restores)
                if okp is not None:
                    bad_paths.append((eb, okp))
            key = "%s:take(%s)%s" % (fn.id, field, _tag(cfg))
            if bad_paths:
                eb, path = bad_paths[0]
                ck.bad("R12.4", key,
                       "after mem::take(&mut %s) %d error exit(s) return Err without putting the taken deltas back: updates accepted "
                       "into the buffer are silently discarded by a failed flush" % (bufpath, len(bad_paths)),
                       fn.where(fn.term(eb).get("ln")), error_exit_lines=sorted({fn.term(e).get("ln") for e, _ in bad_paths}))
            else:
                ck.ok("R12.4", key, "every Err exit after the take restores %s" % bufpath)
    ck.floor("R12.4" + _tag(cfg), n, 2)


def _reach_avoiding(fn, start, target, is_hit):
    """path of blocks from start's successors to target that never passes a block where is_hit(b,0); None if none."""
    seen = set()
    work = [(s, [start, s]) for s in fn.succ(start)]
    while work:
        b, path = work.pop()
        if b in seen:
            continue
        seen.add(b)
        if is_hit(b, 0):
            continue
        if b == target:
            return path
        for s in fn.succ(b):
            if s not in seen:
                work.append((s, path + [s]))
    return None


def _r125(ck, prog, cfg):
    n = 0
    for name in ("streaming::persistence::StreamingPersistence::<S, C>::flush::{closure#0}",
                 "streaming::persistence::StreamingPersistence::<S, C>::write_segment::{closure#0}"):
        cands = prog.find(name)
        if not cands:
            continue
        fn = cands[0]
        saves = [(b, t) for b, t in fn.calls() if is_callee(t, SAVE)]
        for b in sorted(fn.reachable_blocks()):
            for st in fn.blocks[b]["st"]:
                if st["lhs"] != {"l": 0}:
                    continue
                rv = st["rv"]
                if not (rv["k"] == "agg" and rv["n"] == "std::result::Result::Ok"):
                    continue
                res = src_of_operand(fn, rv["ops"][0])
                if not (res.kind == "agg" and res.rv["n"].endswith("FlushResult")):
                    continue
                seg = src_of_operand(fn, res.rv["ops"][res.rv["fs"].index("segment")])
                is_none = seg.kind == "agg" and seg.rv["n"] == "std::option::Option::None"
                n += 1
                key = "%s:ok-return#%d%s" % (fn.id, n, _tag(cfg))
                if is_none:
                    ck.ok("R12.5", key, "Ok(segment: None) — nothing was flushed")
                else:
                    good = any(lib2.dominated_by_ok(fn, sb, b) for sb, _ in saves)
                    ck.check(good, "R12.5", key, "flush returns Ok(segment: Some(..)) on a path where the manifest save has not "
                             "succeeded: success is reported before the pointer swap", fn.where(st["ln"]),
                             detail="Ok(segment: Some) dominated by save Ok")
    ck.floor("R12.5" + _tag(cfg), n, 2)


def _r123(ck, prog, fns, cfg):
    save = prog.one("streaming::manifest::ManifestManager::<S>::save::{closure#0}")
    puts = [(b, t) for b, t in save.calls() if is_callee(t, STORE_PUT)]
    rens = [(b, t) for b, t in save.calls() if is_callee(t, STORE_RENAME)]
    ck.check(len(puts) == 1 and len(rens) == 1, "R12.3", "save-shape" + _tag(cfg),
             "ManifestManager::save no longer has exactly one put and one rename (%d, %d)" % (len(puts), len(rens)), save.where())
    if len(puts) == 1 and len(rens) == 1:
        pb, pt = puts[0]
        rb, rt = rens[0]
        pk = _key_root(save, pt["args"][1]).path()
        rsrc = _key_root(save, rt["args"][1]).path()
        rdst = _key_root(save, rt["args"][2]).path()
        ck.check(pk == "self.temp_key", "R12.3", "put-temp" + _tag(cfg), "save puts %s, not the temp key" % pk, save.where(pt["ln"]),
                 detail="put(self.temp_key)")
        ck.check(rsrc == "self.temp_key" and rdst == "self.manifest_key", "R12.3", "rename-temp-to-manifest" + _tag(cfg),
                 "rename(%s -> %s) is not temp -> manifest" % (rsrc, rdst), save.where(rt["ln"]), detail="rename(temp -> manifest)")
        ck.check(lib2.dominated_by_ok(save, pb, rb), "R12.3", "put-before-rename" + _tag(cfg),
                 "the rename is not dominated by a successful put of the temp object", save.where(rt["ln"]),
                 detail="put Ok-dominates rename")
        ck.check(lib2.awaited_error_propagates(save, rb), "R12.3", "rename-error-propagated" + _tag(cfg),
                 "the rename's failure is not returned to the caller", save.where(rt["ln"]), detail="rename error -> Err return")
        # nothing between put and rename touches the store
        between = save.reach([pb]) - save.reach([rb]) - {rb}
        for b, t in save.calls():
            if b in between and is_callee(t, r"object_store::ObjectStore>::(put|delete|rename)$") and b not in (pb, rb):
                ck.bad("R12.3", "store-op-between-put-and-rename:%s%s" % (callee(t).rsplit("::", 1)[-1], _tag(cfg)),
                       "a mutating object-store call sits between the temp put and the rename: the pointer swap is no longer one step",
                       save.where(t["ln"]))
    # who may use the manifest key
    n = 0
    for fn in prog.lib_fns():
        if not fn.file.startswith("src/streaming/"):
            continue
        for b, t in fn.calls():
            if not is_callee(t, r"object_store::ObjectStore>::(put|delete|rename|get|exists)$"):
                continue
            op = callee(t).rsplit("::", 1)[-1]
            for i, a in enumerate(t["args"][1:], 1):
                s = _key_root(fn, a)
                if s.kind == "path" and s.fields and s.fields[-1] == "manifest_key":
                    n += 1
                    allowed = op in ("get", "exists") or (op == "rename" and i == 2)
                    if op == "rename" and i == 2:
                        # installing an object as the live manifest is only sound for an object this very function wrote completely:
                        # the rename must be dominated by the awaited Ok of a put of its source key (a leftover temp object may be torn)
                        srck = _key_root(fn, t["args"][1]).path()
                        wrote = [pb for pb, pt in fn.calls() if is_callee(pt, STORE_PUT) and _key_root(fn, pt["args"][1]).path() == srck
                                 and lib2.dominated_by_ok(fn, pb, b)]
                        ck.check(bool(wrote), "R12.3", "manifest-installed-from-own-put:%s%s" % (fn.id, _tag(cfg)),
                                 "an object (%s) is renamed over the live manifest in a function that did not itself write it successfully just "
                                 "before: a temp object left by an interrupted or torn put becomes the manifest, and every confirmed segment it "
                                 "does not list is lost" % srck, fn.where(t["ln"]), detail="put(temp) Ok-dominates rename(temp -> manifest)")
                    ck.check(allowed, "R12.3", "manifest-key-use:%s:%s#%d%s" % (fn.id, op, i, _tag(cfg)),
                             "the live manifest key is passed to ObjectStore::%s (arg %d): only get/exists and rename-destination "
                             "may touch it, otherwise there is an instant with no or a partial manifest" % (op, i),
                             fn.where(t["ln"]), detail="manifest_key used by %s" % op)
    ck.floor("R12.3-uses" + _tag(cfg), n, 3)


RESTORE = (r"Vec::<.*>::(extend|append|push|insert|extend_from_slice|splice)$", r"Extend<.*>>::extend$", r"mem::replace", r"mem::swap")


def _r124(ck, prog, fns, cfg):
    n = 0
    for fn in fns:
        for b, t in fn.calls():
            if not is_callee(t, r"mem::take"):
                continue
            s = src_of_operand(fn, t["args"][0], through_calls=TRANSPARENT)
            if not (s.kind in ("path", "call") and s.fields and s.fields[-1] in ("buffer", "deltas")):
                continue
            if "ReplicationDelta" not in (t.get("fnargs") or ""):
                continue
            n += 1
            bufpath = s.path()
            field = s.fields[-1]

            def restores(bb, i0, fn=fn, field=field):
                blk = fn.blocks[bb]
                for j, st in enumerate(blk["st"]):
                    if j >= i0:
                        ls = src_of_place(fn, st["lhs"], through_calls=TRANSPARENT)
                        if ls.fields and ls.fields[-1] == field and st["rv"]["k"] == "use":
                            return True
                tt = blk["t"]
                if tt["k"] == "call" and is_callee(tt, *RESTORE):
                    for a in tt["args"][:1]:
                        rs = src_of_operand(fn, a, through_calls=TRANSPARENT)
                        if rs.fields and rs.fields[-1] == field:
                            return True
                return False
            # error exits: blocks assigning _0 an Err / from_residual, reachable from the take
            reach = fn.reach([b])
            bad_paths = []
            for eb in sorted(reach):
                rets = lib2.returns_in(fn, {eb})
                if not any(k == "err" for k, _ in rets):
                    continue
                # is eb reachable from the take without passing a restoring block?
                okp = _reach_avoiding(fn, b, eb, restores)
                if okp is not None:
                    bad_paths.append((eb, okp))
            key = "%s:take(%s)%s" % (fn.id, field, _tag(cfg))
            if bad_paths:
                eb, path = bad_paths[0]
                ck.bad("R12.4", key,
                       "after mem::take(&mut %s) %d error exit(s) return Err without putting the taken deltas back: updates accepted "
                       "into the buffer are silently discarded by a failed flush" % (bufpath, len(bad_paths)),
                       fn.where(fn.term(eb).get("ln")), error_exit_lines=sorted({fn.term(e).get("ln") for e, _ in bad_paths}))
            else:
                ck.ok("R12.4", key, "every Err exit after the take restores %s" % bufpath)
    ck.floor("R12.4" + _tag(cfg), n, 2)


def _reach_avoiding(fn, start, target, is_hit):
    """path of blocks from start's successors to target that never passes a block where is_hit(b,0); None if none."""
    seen = set()
    work = [(s, [start, s]) for s in fn.succ(start)]
    while work:
        b, path = work.pop()
        if b in seen:
            continue
        seen.add(b)
        if is_hit(b, 0):
            continue
        if b == target:
            return path
        for s in fn.succ(b):
            if s not in seen:
                work.append((s, path + [s]))
    return None


def _r125(ck, prog, cfg):
    n = 0
    for name in ("streaming::persistence::StreamingPersistence::<S, C>::flush::{closure#0}",
                 "streaming::persistence::StreamingPersistence::<S, C>::write_segment::{closure#0}"):
        cands = prog.find(name)
        if not cands:
            continue
        fn = cands[0]
        saves = [(b, t) for b, t in fn.calls() if is_callee(t, SAVE)]
        for b in sorted(fn.reachable_blocks()):
            for st in fn.blocks[b]["st"]:
                if st["lhs"] != {"l": 0}:
                    continue
                rv = st["rv"]
                if not (rv["k"] == "agg" and rv["n"] == "std::result::Result::Ok"):
                    continue
                res = src_of_operand(fn, rv["ops"][0])
                if not (res.kind == "agg" and res.rv["n"].endswith("FlushResult")):
                    continue
                seg = src_of_operand(fn, res.rv["ops"][res.rv["fs"].index("segment")])
                is_none = seg.kind == "agg" and seg.rv["n"] == "std::option::Option::None"
                n += 1
                key = "%s:ok-return#%d%s" % (fn.id, n, _tag(cfg))
                if is_none:
                    ck.ok("R12.5", key, "Ok(segment: None) — nothing was flushed")
                else:
                    good = any(lib2.dominated_by_ok(fn, sb, b) for sb, _ in saves)
                    ck.check(good, "R12.5", key, "flush returns Ok(segment: Some(..)) on a path where the manifest save has not "
                             "succeeded: success is reported before the pointer swap", fn.where(st["ln"]),
                             detail="Ok(segment: Some) dominated by save Ok")
    ck.floor("R12.5" + _tag(cfg), n, 2)


def _r126(ck, prog, fns, cfg, rid="R12.6", floor=8):
    n = 0
    for fn in fns:
        if fn.kind != "coroutine":
            continue
        saves = [(b, t) for b, t in fn.calls() if is_callee(t, SAVE)]
        loads = [(b, t) for b, t in fn.calls() if is_callee(t, LOAD)]
        puts = [(b, t) for b, t in fn.calls() if is_callee(t, STORE_PUT)]
        if fn.id.startswith("streaming::manifest::ManifestManager"):
            continue
        for sb, st_ in saves:
            n += 1
            ck.check(lib2.awaited_error_propagates(fn, sb), rid, "%s:save-result#%d%s" % (fn.id, _ord(fn, sb, SAVE), _tag(cfg)),
                     "the result of ManifestManager::save is not propagated: a failed pointer swap would be reported as success",
                     fn.where(st_["ln"]), detail="save error -> Err return")
        for pb, pt in puts:
            n += 1
            ck.check(lib2.awaited_error_propagates(fn, pb), rid, "%s:put-result#%d%s" % (fn.id, _ord(fn, pb, STORE_PUT), _tag(cfg)),
                     "the result of ObjectStore::put is not propagated", fn.where(pt["ln"]), detail="put error -> Err return")
        if saves:
            ck.check(len(loads) >= 1, rid, "%s:load-before-save%s" % (fn.id, _tag(cfg)),
                     "a manifest is saved in a function that never (re)loads it: a stale cached manifest overwrites concurrent changes",
                     fn.where())
            for lb, lt in loads:
                n += 1
                ck.check(lib2.awaited_error_propagates(fn, lb), rid, "%s:load-result#%d%s" % (fn.id, _ord(fn, lb, LOAD), _tag(cfg)),
                         "a failed manifest (re)load does not abort the operation: it continues with a cached/stale manifest and "
                         "then saves it, erasing concurrent updates (compaction/flush)", fn.where(lt["ln"]),
                         detail="load error -> Err return")
    ck.floor(rid + ("-rmw" if rid != "R12.6" else "") + _tag(cfg), n, floor)


def _r127(ck, prog, fns, cfg, rid="R12.7", floor=2):
    n = 0
    for f in fns:
        wr = [(b, t) for b, t in f.calls() if is_callee(t, r"SegmentWriter::write_delta$")]
        if not wr:
            continue
        if f.kind == "closure":
            # `deltas.iter().try_for_each(|d| writer.write_delta(d))?`: the closure is the loop body; the driver is in the parent
            par = prog.fns.get(f.parent)
            n += 1
            fid = re.sub(r"\{closure#\d+\}", "{closure}", (par.id if par is not None else f.id)).replace("streaming::", "")
            key = "%s:write_delta#0%s" % (fid, _tag(cfg))
            okc = False
            why = "the closure that writes a delta is not driven by try_for_each/for_each over the batch"
            if par is not None:
                for b, t in par.calls():
                    if is_callee(t, r"Iterator>::(try_for_each|for_each)::") and len(t["args"]) >= 2:
                        clo = src_of_operand(par, t["args"][1])
                        if clo.kind == "agg" and clo.rv.get("n") == f.id:
                            it = src_of_operand(par, t["args"][0], through_calls=TRANSPARENT)
                            adapt = []
                            cur = it
                            hops = 0
                            while cur.kind == "call" and hops < 8:
                                if is_callee(cur.term, r"Iterator>::(filter|filter_map|take|skip|step_by|take_while|skip_while)\b"):
                                    adapt.append(callee(cur.term).rsplit("::", 1)[-1].split("<")[0])
                                if not cur.term["args"]:
                                    break
                                cur = src_of_operand(par, cur.term["args"][0], through_calls=TRANSPARENT)
                                hops += 1
                            every = all(wb == 0 or f.dominates(wb, e) for wb, _ in wr for e in f.exits())
                            prop = is_callee(t, r"try_for_each") and (lib2.error_propagates(par, t) or lib2.flows_to_return(par, t["dest"]))
                            okc = not adapt and every and prop
                            why = ("adaptor %s drops elements" % adapt) if adapt else ("the write is not on every path of the closure" if not every
                                                                                       else "the error of try_for_each is not propagated")
            ck.check(okc, rid, key, "a delta taken for this flush can be left out of the segment (%s)" % why, f.where(wr[0][1]["ln"]),
                     detail="try_for_each(write_delta)? over the whole batch")
            continue
        heads = lib2.loop_heads(f)
        for k, (b, t) in enumerate(sorted(wr, key=lambda x: x[1]["ln"])):
            n += 1
            fid = re.sub(r"\{closure#\d+\}", "{closure}", f.id).replace("streaming::", "")
            key = "%s:write_delta#%d%s" % (fid, k, _tag(cfg))
            # the loop this write sits in
            mine = [h for h, (none_t, some_t, nb) in heads.items() if b == some_t or b in f.reach([some_t], avoid=[h])]
            if not mine:
                ck.bad(rid, key, "SegmentWriter::write_delta is not inside a loop over the batch", f.where(t["ln"]))
                continue
            h = min(mine, key=lambda h: len(f.reach([heads[h][1]], avoid=[h])))   # innermost
            # sinks: the write itself; an Err-propagating exit is accepted (the flush fails as a whole)
            errs = {x for x in f.reachable_blocks() if lib2._err_assign_block(f, x)}
            skip = lib2.iteration_skips(f, h, {b} | errs)
            ok_err = lib2.error_propagates(f, t)
            adapt = []
            it = src_of_operand(f, f.term(heads[h][2])["args"][0], through_calls=TRANSPARENT)
            cur = it
            hops = 0
            while cur.kind == "call" and hops < 8:
                nm = callee(cur.term).rsplit("::", 1)[-1].split("<")[0]
                if is_callee(cur.term, r"Iterator>::(filter|filter_map|take|skip|step_by|take_while|skip_while|dedup\w*)\b"):
                    adapt.append(nm)
                if not cur.term["args"]:
                    break
                cur = src_of_operand(f, cur.term["args"][0], through_calls=TRANSPARENT)
                hops += 1
            ck.check(skip is None and ok_err and not adapt, rid, key,
                     "a delta taken for this flush can be left out of the segment (%s): it is acknowledged as flushed and then missing from "
                     "what recovery reads" % ("an iteration skips the write" if skip is not None else
                                               "the write error is not propagated" if not ok_err else "adaptor %s drops elements" % adapt),
                     f.where(t["ln"]), detail="every iteration writes; error propagated; no adaptor")
    ck.floor(rid + _tag(cfg), n, floor)


WRITER_TEXT = ("a segment holds every delta handed to its writer: in SegmentWriter::write_delta every path that returns Ok has serialised the "
               "delta and pushed the record (no write-time suppression of a delta that 'looks like a repeat' - same key and Lamport time, "
               "different replica id or value is a different update), and SegmentWriter::finish emits every buffered record")


def writer_rule(ck, prog, cfg, rid):
    fs = [f for f in prog.lib_fns() if f.id == "streaming::segment::SegmentWriter::write_delta"]
    if len(fs) != 1:
        ck.anchor_lost(rid, "SegmentWriter::write_delta not found")
        return
    f = fs[0]
    pushes = {b for b, t in f.calls() if is_callee(t, r"Vec::<.*>::push$") and _self_field_arg(f, t["args"][0]) == "records"}
    sers = {b for b, t in f.calls() if is_callee(t, r"bincode::.*serialize", r"serialize_into")}
    oks = [b for b, i, st in f.stmts() if st["lhs"] == {"l": 0} and st["rv"]["k"] == "agg" and st["rv"].get("n", "").endswith("Result::Ok")]
    ck.floor(rid + ":write_delta" + _tag(cfg), min(len(pushes), len(oks)), 1)
    path = lib2.path_avoiding(f, 0, lambda x: x in oks, lambda x: x in pushes, (), from_succ=False)
    ck.check(path is None and bool(pushes) and bool(sers), rid, "write_delta:ok-implies-stored" + _tag(cfg),
             "SegmentWriter::write_delta can return Ok without pushing a record: the flush reports the delta as written, the manifest counts "
             "it, and recovery never sees it", f.where(f.term(path[-1])["ln"] if path else None), detail="records.push on every Ok path")
    # ... and what was stored stays stored: write_delta only appends to the record buffer
    undo = [(callee(t).rsplit("::", 1)[-1].split("<")[0], t["ln"]) for b, t in f.calls()
            if t.get("args") and is_callee(t, r"Vec::<.*>::(pop|truncate|clear|remove|swap_remove|retain|retain_mut|drain|dedup\w*|split_off|insert)(::<.*>)?$")
            and _self_field_arg(f, t["args"][0]) == "records"]
    ck.check(not undo, rid, "write_delta:append-only" + _tag(cfg),
             "SegmentWriter::write_delta removes or rewrites records it has already accepted (%s): a delta reported as written is folded away, so "
             "the segment decodes to fewer updates than were encoded (and the merge of what is left differs: expiry is merged by max)" % undo[:2],
             f.where(undo[0][1]) if undo else f.where(), detail="records is only pushed to")
    # finish: the loop over self.records writes each record (no adaptor between the field and the loop)
    fin = [g for g in prog.lib_fns() if g.id == "streaming::segment::SegmentWriter::finish"]
    if len(fin) == 1:
        g = fin[0]
        bad = [callee(t).rsplit("::", 1)[-1] for b, t in g.calls()
               if is_callee(t, r"Iterator>::(skip|take|step_by|filter|skip_while|take_while|rev)$", r"Vec::<.*>::(truncate|dedup\w*|retain|drain|pop|swap_remove|remove)$")]
        ck.check(not bad, rid, "finish:emits-every-record" + _tag(cfg),
                 "SegmentWriter::finish narrows the buffered records before writing them (%s)" % bad, g.where(), detail="no narrowing adaptor")


def _self_field_arg(f, operand):
    s = src_of_operand(f, operand, through_calls=TRANSPARENT + (r"Deref>::deref$", r"DerefMut>::deref_mut$"))
    return s.fields[0] if s.kind == "path" and s.root == "self" and s.fields else None


# ------------------------------------------------------------------------------------------------
IDS_TEXT = ("segment ids are never handed out twice: every store to Manifest.next_segment_id is `old next_segment_id + c` (c >= 1), or the raise "
            "`id + 1` behind the test `id >= next_segment_id` (add_segment) - never a value recomputed from the segments that happen to be "
            "listed (when compaction empties the list the counter would fall back to 0: new segments then get ids at or below the "
            "checkpoint's last_segment_id, recovery skips them as covered, and a re-used id overwrites a listed object)")
MANIFEST_TY = "streaming::manifest::Manifest"


def ids_rule(ck, prog, cfg, rid):
    n = 0
    for fn in prog.lib_fns():
        if "::tests::" in fn.id or fn.file.endswith("_dst.rs"):
            continue
        k = 0
        for b, i, st in fn.stmts():
            lhs = st["lhs"]
            pr = lhs.get("p", [])
            fs = [e for e in pr if isinstance(e, dict) and "f" in e]
            if not fs or pr[-1] is not fs[-1] or fs[-1]["f"] != "next_segment_id" or fs[-1].get("o") != MANIFEST_TY:
                continue
            n += 1
            rv = st["rv"]
            ok = False
            why = "is not an increment of the previous counter"
            if rv["k"] == "bin" and rv["op"].startswith("Add"):
                c = (rv["b"].get("c") or "").replace("const ", "")
                pos = c.endswith("_u64") and c.split("_")[0].isdigit() and int(c.split("_")[0]) >= 1
                base = src_of_operand(fn, rv["a"], through_calls=TRANSPARENT)
                if pos and base.kind in ("path", "call") and base.fields[-1:] == ("next_segment_id",):
                    ok = True
                elif pos and base.kind in ("path", "call") and base.fields[-1:] == ("id",):
                    # the raise in add_segment: guarded by `id >= self.next_segment_id`
                    for sb, _ in lib2.controlling_switches(fn, b):
                        si = switch_info(fn, sb)
                        src = si["src"] if si else None
                        if src is not None and src.kind == "rv" and src.rv["k"] == "bin" and src.rv["op"] in ("Ge", "Gt"):
                            o2 = src_of_operand(fn, src.rv["b"], through_calls=TRANSPARENT)
                            o1 = src_of_operand(fn, src.rv["a"], through_calls=TRANSPARENT)
                            if o2.fields[-1:] == ("next_segment_id",) and o1.fields[-1:] == ("id",):
                                ok = True
                    why = "raises the counter to id + 1 without the guard `id >= next_segment_id`"
                elif not pos:
                    why = "adds %s" % (c or "a variable")
                else:
                    why = "is computed from %s, not from the previous counter" % base.path()[-60:]
            elif rv["k"] == "use":
                why = "is overwritten with %s" % src_of_operand(fn, rv["a"], through_calls=TRANSPARENT).path()[-70:]
            ck.check(ok, rid, "%s:store-next_segment_id#%d%s" % (fn.id.replace("streaming::", ""), k, _tag(cfg)),
                     "Manifest.next_segment_id %s: the id counter can move backwards, so a later flush or compaction is given an id that was "
                     "already used (its object is overwritten) or that lies at or below the checkpoint's covered range (recovery skips it)" % why,
                     fn.where(st["ln"]), detail="monotone store")
            k += 1
    ck.floor(rid + _tag(cfg), n, 3)
