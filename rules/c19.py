"""C19 — key placement is a function of membership; selective gossip reaches every owner."""
import re
from .facts import callee, op_place, op_local
from .lib import src_of_operand, src_of_place, is_callee, TRANSPARENT, switch_info, edge_targets, all_paths_hit
from . import lib2

HR = "replication::hash_ring::HashRing::"
NONDET = (r"RandomState", r"AHasher", r"ahash::", r"thread_rng", r"rand::random", r"fxhash", r"SipHasher13::new_with_keys", r"ptr::hash", r"as \*const")


def _tag(cfg):
    return "" if cfg == "default" else "@" + cfg


def run(ck, ctx):
    ck.rule("R19.1", "placement hashes are process-independent: HashRing::hash_key / hash_virtual_node only use DefaultHasher::new, "
                     "Hash::hash on str/integers and Hasher::finish (no RandomState, AHasher, RNG or address-based hashing)")
    ck.rule("R19.2", "the ring is canonical: every function that grows HashRing.ring (push/insert/extend) sorts it on every path before "
                     "returning; removal uses the order-preserving retain")
    ck.rule("R19.3", "join order cannot leak: get_replicas_with_rf touches physical_nodes only through len()/contains(); the replica "
                     "list it returns is built solely from the clockwise ring walk")
    ck.rule("R19.4", "exact count: the walk collects n = min(rf, physical_nodes.len()) distinct nodes (loop bounded by replicas.len() < n, "
                     "distinctness through a seen-set)")
    ck.rule("R19.5", "router = owners minus sender: route_selective takes targets from get_gossip_targets(key, my_replica) and skips a "
                     "target only when that target has no address (the skip continues with the next target of the same delta); "
                     "get_gossip_targets filters only `!= sender`; queue_deltas emits one targeted message per routing-table entry")
    ck.rule("R19.6", "virtual-node positions are an injective function of (node, index): the position hash is fed the node id and the virtual "
                     "index as separate fixed-width integers (two Hash::hash calls on integer types) - never one concatenated/formatted "
                     "label, which makes (1, 13) and (11, 3) collide; colliding positions keep their join order through the stable sort, so "
                     "the replica list would depend on the order in which nodes joined")
    ck.nd("minimal disruption on membership change (a numeric property of consistent hashing); per-key RF overrides")
    ck.rule("R19.7", "membership is consulted when routing, not frozen when the router is built: the constructors of GossipRouter store the peer "
                     "address map they were given / derived from the configuration - they neither read the (shared, later changing) hash ring nor "
                     "remove entries from the map: a configured peer that joins the ring afterwards owns keys, and a router that pruned its "
                     "address would never send it their updates")
    ck.rule("R19.9", "what was queued for an owner is what is handed to the transport: GossipState::drain_outbound returns the outbound queue itself "
                     "(mem::take / drain into a Vec) - it does not merge, de-duplicate, reorder or trim the queued messages or their delta lists; the "
                     "routing decision was taken when the message was queued, and an edit here can empty or drop a frame an owner is waiting for")
    ck.rule("R19.8", "the configured replication factor is what lookups use: HashRing.replication_factor is stored by the constructor and by nothing "
                     "else (no clamp to the momentary cluster size on removal): the owner count is min(RF, members) of the *current* membership, "
                     "so a ring that shrank below RF and regrew answers like a fresh ring with the same members")
    for cfg in ctx.configs:
        prog = ctx.prog(cfg)
        ck.configs.append(cfg)
        ck.fn_count += len(prog.fns)
        _rules(ck, prog, cfg)
        _r197(ck, prog, cfg)
        _r198(ck, prog, cfg)
        _r199(ck, prog, cfg)


def _is_field(fn, operand, name):
    s = src_of_operand(fn, operand, through_calls=TRANSPARENT + (r"Deref>::deref$", r"DerefMut>::deref_mut$"))
    return s.kind == "path" and s.root == "self" and s.fields[:1] == (name,)


def _rules(ck, prog, cfg):
    # ---- R19.1
    # anchored on what is done, not on where: every hasher construction / hash feed / finish anywhere in hash_ring.rs (the two
    # helper functions of the reference tree, or their bodies inlined into add_node / get_replicas_with_rf)
    n1 = 0
    hashing = re.compile(r"Hasher|std::hash::Hash>::hash|RandomState|BuildHasher|::hash_one")
    for f in prog.lib_fns():
        if f.file != "src/replication/hash_ring.rs" or "::tests::" in f.id or f.d.get("implements") == "std::hash::Hash::hash":
            continue        # derived `Hash` impls feed whatever hasher they are given
        k = 0
        for b, t in f.calls():
            c = (t.get("fnargs") or callee(t))
            if not (hashing.search(c) or any(re.search(p, c) for p in NONDET)):
                continue
            n1 += 1
            k += 1
            ok = bool(re.search(r"^std::hash::DefaultHasher::new$|^<(str|u64|u32|usize|u8|\[u8\]) as std::hash::Hash>::hash::<std::hash::DefaultHasher>$|"
                                r"^<std::hash::DefaultHasher as std::hash::Hasher>::finish$", c))
            bad = any(re.search(p, c) for p in NONDET)
            ck.check(ok and not bad, "R19.1", "%s:%s#%d%s" % (f.short, c.rsplit("::", 1)[-1].split("<")[0], k, _tag(cfg)),
                     "ring position hashing calls %s: placement would differ between processes/nodes, so replicas disagree on who owns a key" % c,
                     f.where(t["ln"]), detail=c[-60:])
    ck.floor("R19.1" + _tag(cfg), n1, 6)
    # ---- R19.6: who computes vnode positions, and from what
    vfs = [f for f in prog.lib_fns() if f.file == "src/replication/hash_ring.rs" and "::tests::" not in f.id and
           f.d.get("implements") != "std::hash::Hash::hash" and
           (f.short == "hash_virtual_node" or any(is_callee(t, r"^<u32 as std::hash::Hash>::hash") for _, t in f.calls()))]
    if not vfs:
        ck.anchor_lost("R19.6", "no function of hash_ring.rs hashes a virtual-node index (u32) any more")
    for f in vfs:
        feeds = [(b, t) for b, t in f.calls() if re.search(r" as std::hash::Hash>::hash", t.get("fnargs") or callee(t))]
        ints = [t for _, t in feeds if re.search(r"^<(u64|u32|usize|u16|u8) as std::hash::Hash>::hash", t.get("fnargs") or callee(t))]
        texty = [t for _, t in f.calls() if re.search(r"^<(str|std::string::String|\[u8\]) as std::hash::Hash>::hash|format|HashRing::hash_key$|to_string", t.get("fnargs") or callee(t))]
        ck.check(len(ints) >= 2 and not texty and len(ints) == len(feeds), "R19.6", "%s:separate-integer-feeds%s" % (f.short, _tag(cfg)),
                 "the virtual-node position is not hashed from (node id, index) as two separate integers (%d integer feeds, %d text/other feeds: %s): "
                 "distinct (node, index) pairs can collide and tied ring entries stay in join order"
                 % (len(ints), len(feeds) - len(ints) + len(texty), sorted({(t.get("fnargs") or callee(t))[-50:] for t in texty})[:3]),
                 f.where(), detail="%d integer feeds" % len(ints))
    # who else computes ring positions? every push into `ring` takes its position from hash_virtual_node
    # ---- R19.2
    n2 = 0
    for f in prog.lib_fns():
        if f.file != "src/replication/hash_ring.rs" or f.d.get("impl_self") != "replication::hash_ring::HashRing":
            continue
        grows = [(b, t) for b, t in f.calls() if is_callee(t, r"Vec::<\(u64, .*VirtualNode\)>::(push|insert|extend|append|extend_from_slice)$",
                                                            r"Vec<\(u64, .*VirtualNode\)> as std::iter::Extend<.*>>::extend(::<.*>)?$") and _is_field(f, t["args"][0], "ring")]
        if not grows:
            continue
        sorts = {b for b, t in f.calls() if is_callee(t, r"<impl \[.*\]>::sort", r"slice::<impl \[T\]>::sort") and _is_field(f, t["args"][0], "ring")}
        for gb, gt in grows:
            n2 += 1
            okp, path = all_paths_hit(f, (gb, len(f.blocks[gb]["st"])), lambda bb, i0: bb in sorts)
            ck.check(okp, "R19.2", "%s:ring-grow#%d%s" % (f.short, n2, _tag(cfg)),
                     "HashRing.ring is extended and a path returns without sorting it: binary search and the clockwise walk then depend on "
                     "insertion (join) order", f.where(gt["ln"]), detail="sort on every path after the insertion")
            pos = src_of_operand(f, gt["args"][1])
            if pos.kind == "agg" and pos.rv["ak"] == "tuple":
                p0 = src_of_operand(f, pos.rv["ops"][0])
                ck.check(p0.kind == "call" and is_callee(p0.term, r"HashRing::hash_virtual_node$", r"DefaultHasher as std::hash::Hasher>::finish$"), "R19.2", "%s:position-from-hash%s" % (f.short, _tag(cfg)),
                         "a ring position does not come from hash_virtual_node (%s)" % p0.path(), f.where(gt["ln"]), detail="position = hash_virtual_node(node, i)")
            elif is_callee(gt, r"Extend<.*>>::extend"):
                # ring.extend((0..n).map(|i| (hash_virtual_node(..), vnode))): the tuple is built in the mapping closure
                good = False
                for ch in prog.children(f):
                    for bb, i, st in ch.stmts():
                        rv = st["rv"]
                        if rv["k"] == "agg" and rv.get("ak") == "tuple" and rv.get("ops"):
                            q0 = src_of_operand(ch, rv["ops"][0])
                            if q0.kind == "call" and is_callee(q0.term, r"HashRing::hash_virtual_node$", r"DefaultHasher as std::hash::Hasher>::finish$"):
                                good = True
                ck.check(good, "R19.2", "%s:position-from-hash%s" % (f.short, _tag(cfg)),
                         "ring positions added by extend() do not come from hash_virtual_node", f.where(gt["ln"]), detail="position = hash_virtual_node(node, i) in the mapping closure")
        # sort key = position
    ck.floor("R19.2" + _tag(cfg), n2, 1)
    # ---- R19.3 / R19.4
    g = prog.one(HR + "get_replicas_with_rf")
    n3 = 0
    for b, t in g.calls():
        for ai, a in enumerate(t["args"]):
            if "c" in a:
                continue
            if _is_field(g, a, "physical_nodes"):
                n3 += 1
                ok = is_callee(t, r"Vec::<.*ReplicaId>::len$", r"<impl \[.*ReplicaId\]>::(len|contains)$", r"Deref>::deref$", r"<impl \[T\]>::(len|contains)$")
                ck.check(ok, "R19.3", "get_replicas_with_rf:physical_nodes-use:%s#%d%s" % (callee(t).rsplit("::", 1)[-1], n3, _tag(cfg)),
                         "get_replicas_with_rf uses physical_nodes through %s: the list is in join order, so the replica order/primary "
                         "would depend on the order in which a node learned about its peers" % callee(t).rsplit("::", 1)[-1],
                         g.where(t["ln"]), detail="len()/contains() only")
    ck.floor("R19.3" + _tag(cfg), n3, 2)
    # returned value: only the walk vector (or an empty vec when the ring is empty)
    rets = []
    for b, i, st in g.stmts():
        if st["lhs"] == {"l": 0}:
            rets.append((b, st))
    for b, t in g.calls():
        if t["dest"] == {"l": 0}:
            rets.append((b, {"rv": {"k": "callret"}, "ln": t["ln"], "t": t}))
    for k, (b, st) in enumerate(rets):
        okr = False
        if st["rv"]["k"] == "use":
            s = src_of_operand(g, st["rv"]["a"])
            if s.kind == "call" and is_callee(s.term, r"Vec::<.*ReplicaId>::with_capacity$", r"Vec::<.*ReplicaId>::new$"):
                okr = True
            if s.kind in ("path", "multi") and (s.root == "replicas" or g.name_of_local(s.local or -1) == "replicas"):
                okr = True
        elif st["rv"]["k"] == "callret":
            okr = is_callee(st["t"], r"Vec::<.*ReplicaId>::new$", r"slice::<impl \[.*\]>::into_vec", r"vec::from_elem")
            if is_callee(st["t"], r"slice::<impl \[.*\]>::into_vec"):
                okr = True  # vec![] literal
        ck.check(okr, "R19.3", "get_replicas_with_rf:return#%d%s" % (k, _tag(cfg)),
                 "get_replicas_with_rf returns something other than the vector filled by the ring walk", g.where(st["ln"]),
                 detail="returns the walk result")
    pushes = [(b, t) for b, t in g.calls() if is_callee(t, r"Vec::<.*ReplicaId>::push$")]
    for pb, pt in pushes:
        v = src_of_operand(g, pt["args"][1], through_calls=TRANSPARENT + (r"Index<.*>>::index$",))
        ck.check("physical_node" in v.fields, "R19.3", "get_replicas_with_rf:push-from-ring" + _tag(cfg),
                 "a replica is pushed that does not come from a ring entry (%s)" % v.path(), g.where(pt["ln"]), detail="push(vnode.physical_node)")
        # distinctness: guarded by !seen.contains(..)
        guarded = any(gd["src"] is not None and gd["src"].kind == "call" and
                      ((is_callee(gd["src"].term, r"HashSet::<.*>::contains$") and lib2.guard_is_false(gd)) or
                       (is_callee(gd["src"].term, r"HashSet::<.*>::insert$") and lib2.guard_is_true(gd)))     # `if seen.insert(n)`: true = newly seen
                      for gd in lib2.guards(g, pb))
        ck.check(guarded, "R19.4", "get_replicas_with_rf:distinct" + _tag(cfg), "a replica can be pushed twice (no seen-set guard)", g.where(pt["ln"]),
                 detail="!seen.contains(node)")
    mins = [(b, t) for b, t in g.calls() if is_callee(t, r"<usize as std::cmp::Ord>::min$")]
    okm = False
    for b, t in mins:
        a = [src_of_operand(g, x) for x in t["args"]]
        if any(x.kind == "path" and x.root == "rf" for x in a) and any(x.kind == "call" and is_callee(x.term, r"::len$") for x in a):
            okm = True
    ck.check(okm, "R19.4", "get_replicas_with_rf:n=min(rf,len)" + _tag(cfg), "the target count is not min(rf, physical_nodes.len())", g.where(),
             detail="n = rf.min(physical_nodes.len())")
    cmp_ok = False
    for b, i, st in g.stmts():
        rv = st["rv"]
        if rv["k"] == "bin" and rv["op"] in ("Lt", "Ge"):
            a, b2 = src_of_operand(g, rv["a"]), src_of_operand(g, rv["b"])
            if a.kind == "call" and is_callee(a.term, r"Vec::<.*ReplicaId>::len$") and (b2.root == "n" or g.name_of_local(b2.local or -1) == "n"):
                cmp_ok = True
    ck.check(cmp_ok, "R19.4", "get_replicas_with_rf:loop-bound" + _tag(cfg), "the walk is not bounded by replicas.len() < n", g.where(), detail="while replicas.len() < n")
    # ---- R19.5
    gt = prog.one(HR + "get_gossip_targets")
    base = [(b, t) for b, t in gt.calls() if is_callee(t, r"HashRing::get_replicas$")]
    filt = [(b, t) for b, t in gt.calls() if is_callee(t, r"Iterator>::(filter|filter_map|take|skip|take_while|skip_while|step_by)\b")]
    ck.check(len(base) == 1 and len(filt) == 1, "R19.5", "get_gossip_targets:shape" + _tag(cfg),
             "get_gossip_targets is no longer get_replicas(key) with exactly one filter (%d adaptors)" % len(filt), gt.where())
    for b, t in filt[:1]:
        clo = src_of_operand(gt, t["args"][1])
        cf = prog.fns.get(clo.rv["n"]) if clo.kind == "agg" and clo.rv["ak"] == "closure" else None
        ok = False
        if cf is not None:
            for bb, tt in cf.calls():
                if is_callee(tt, r"PartialEq>::ne$", r"PartialEq<.*>>::ne$"):
                    ok = True
            for bb, i, st in cf.stmts():
                if st["rv"]["k"] == "bin" and st["rv"]["op"] == "Ne":
                    ok = True
        ck.check(ok, "R19.5", "get_gossip_targets:predicate" + _tag(cfg), "the only filter is not `replica != sender`", gt.where(t["ln"]), detail="filter(r != sender)")
    rs = prog.one("replication::gossip_router::GossipRouter::route_selective")
    tg = [(b, t) for b, t in rs.calls() if is_callee(t, r"HashRing::get_gossip_targets$")]
    ck.check(len(tg) == 1, "R19.5", "route_selective:targets-source" + _tag(cfg), "route_selective does not take its targets from get_gossip_targets", rs.where())
    for b, t in tg:
        snd = src_of_operand(rs, t["args"][2])
        ck.check(snd.kind == "path" and snd.fields[-1:] == ("my_replica",), "R19.5", "route_selective:sender" + _tag(cfg),
                 "the excluded sender is %s, not self.my_replica" % snd.path(), rs.where(t["ln"]), detail="sender = self.my_replica")
    nexts = [(b, t) for b, t in rs.calls() if is_callee(t, r"Iterator>::next$")]
    inner = [b for b, t in nexts if "ReplicaId" in (t.get("fnargs") or "")]
    outer = [b for b, t in nexts if "ReplicationDelta" in (t.get("fnargs") or "")]
    ck.check(len(inner) == 1 and len(outer) == 1, "R19.5", "route_selective:loops" + _tag(cfg),
             "route_selective is no longer `for delta { for target in targets { .. } }` (%d inner, %d outer iterators): the per-target "
             "skip rule cannot be vouched for" % (len(inner), len(outer)), rs.where())
    ck_sites = [(b, t) for b, t in rs.calls() if is_callee(t, r"HashMap::<.*ReplicaId, std::string::String.*>::contains_key")]
    pushes = [(b, t) for b, t in rs.calls() if is_callee(t, r"Vec::<.*ReplicationDelta>::push$")]
    ck.check(len(pushes) >= 1, "R19.5", "route_selective:push" + _tag(cfg), "no push into the routing table", rs.where())
    if len(inner) == 1 and len(outer) == 1:
        ih, oh = inner[0], outer[0]
        # the per-target loop walks the whole owner list: nothing but into_iter/iter/copied/cloned between get_gossip_targets and next()
        ch = lib2.iter_chain(rs, rs.term(ih)["args"][0])
        names = [n for n, _ in ch]
        src_ok = False
        if ch:
            last = ch[-1][1]
            if is_callee(last, r"get_gossip_targets$"):
                src_ok = True
            elif last["args"]:
                s0 = src_of_operand(rs, last["args"][0], through_calls=TRANSPARENT)
                src_ok = s0.kind == "call" and is_callee(s0.term, r"get_gossip_targets$")
        cut = []
        for nm, ct in ch:
            if nm in ("into_iter", "iter", "copied", "cloned", "get_gossip_targets", "by_ref", "deref", "as_slice"):
                continue
            if nm == "filter" and len(ct["args"]) > 1:
                # the address test moved in front of the loop: a filter whose closure only asks peer_addresses.contains_key(target)
                cl = src_of_operand(rs, ct["args"][1], through_calls=TRANSPARENT)
                kid = prog.fns.get(cl.rv.get("n")) if cl.kind == "agg" else None
                if kid is not None:
                    kc = [callee(t2) for _, t2 in kid.calls()]
                    if kc and all(re.search(r"HashMap::<.*>::contains_key(::<.*>)?$", c) for c in kc):
                        continue
            cut.append(nm)
        ck.check(src_ok and not cut, "R19.5", "route_selective:walks-every-owner" + _tag(cfg),
                 "the per-target loop does not walk the whole list returned by get_gossip_targets (%s): an owner of the key is never sent the delta"
                 % ("adaptors %s" % cut if cut else "iterator source is not the owner list"), rs.where(rs.term(ih)["ln"]),
                 detail="for target in get_gossip_targets(..): chain %s" % list(reversed(names)))
        # every switch inside the inner loop body that can skip the push must send control to the inner head
        for sb in sorted(rs.reachable_blocks()):
            if rs.term(sb)["k"] != "switch" or sb not in rs.reach([ih]) or ih not in rs.reach([sb]):
                continue
            si = switch_info(rs, sb)
            if si is None or si["src"] is None:
                continue
            if si["kind"] == "discr" and si["place"]["l"] in [rs.term(ih)["dest"]["l"]]:
                continue  # the inner loop's own Some/None test
            for tgt in rs.succ(sb):
                # can this edge reach the outer head without passing the inner head (i.e. abandon the remaining targets)?
                p = lib2.path_avoiding(rs, tgt, lambda x: x == oh, lambda x: x == ih, (), from_succ=False)
                isc = si["src"].kind == "call" and is_callee(si["src"].term, r"contains_key")
                ck.check(p is None, "R19.5", "route_selective:skip-continues-with-next-target#%d%s" % (sb if False else _sw_ord(rs, sb), _tag(cfg)),
                         "a branch inside the per-target loop abandons the remaining targets of the delta (jumps to the next delta): when one "
                         "owner has no address the other owners are starved of the update", rs.where(rs.term(sb)["ln"]),
                         detail="skip only this target")
        # pushes are guarded only by contains_key(target)
        for pb, pt in pushes:
            gs = [gd for gd in lib2.guards(rs, pb) if gd["sw"] in rs.reach([ih]) and gd["si"] is not None and gd["si"]["kind"] == "val"]
            bad = [gd for gd in gs if not (gd["src"] is not None and gd["src"].kind == "call" and is_callee(gd["src"].term, r"contains_key"))]
            ck.check(not bad, "R19.5", "route_selective:only-address-filter" + _tag(cfg),
                     "delivery to a responsible replica is conditional on something other than having its address", rs.where(pt["ln"]),
                     detail="guard = peer_addresses.contains_key(target)")
    # queue_deltas: one targeted message per routing table entry
    qd = prog.one("replication::gossip::GossipState::queue_deltas")
    rd = [(b, t) for b, t in qd.calls() if is_callee(t, r"GossipRouter::route_deltas$")]
    mk = [(b, t) for b, t in qd.calls() if is_callee(t, r"GossipMessage::new_targeted_delta$")]
    # iterator form: routing_table.into_iter()..map(|(target, deltas)| new_targeted_delta(.., target, deltas))..for_each(push)
    mk_kid = [(c, b, t) for c in prog.children(qd) for b, t in c.calls() if is_callee(t, r"GossipMessage::new_targeted_delta$")]
    ck.check(len(rd) == 1 and len(mk) + len(mk_kid) == 1, "R19.5", "queue_deltas:shape" + _tag(cfg), "queue_deltas no longer routes and builds one targeted message per entry", qd.where())
    for c, b, t in mk_kid:
        tgt = src_of_operand(c, t["args"][1])
        dl = src_of_operand(c, t["args"][2])
        # both come from the closure's one (target, deltas) parameter, and the chain in front of the closure starts at the routing table
        same = tgt.kind == "path" and dl.kind == "path" and tgt.local is not None and tgt.local == dl.local and 2 <= tgt.local <= c.d["argc"] \
            and tgt.fields[:1] != dl.fields[:1]
        cut = [nm for b2, t2 in qd.calls() if is_callee(t2, r"Iterator>?::(take|skip|step_by|take_while|skip_while|nth|last)(::<.*>)?$") for nm in [callee(t2).rsplit("::", 1)[-1]]]
        ck.check(same and not cut, "R19.5", "queue_deltas:message-per-entry" + _tag(cfg),
                 "the targeted message is not built from (target, deltas) of one routing-table entry, or the table is cut (%s)" % cut, c.where(t["ln"]),
                 detail="(target, deltas) from the same entry")
    for b, t in mk:
        tgt = src_of_operand(qd, t["args"][1])
        dl = src_of_operand(qd, t["args"][2])
        ok = tgt.kind == "call" and is_callee(tgt.term, r"IntoIter<.*> as std::iter::Iterator>::next$") and dl.kind == "call" and dl.term is tgt.term
        ck.check(ok, "R19.5", "queue_deltas:message-per-entry" + _tag(cfg),
                 "the targeted message is not built from (target, deltas) of one routing-table entry", qd.where(t["ln"]), detail="(target, deltas) from the same entry")


def _sw_ord(fn, sb):
    sws = sorted(b for b in fn.reachable_blocks() if fn.term(b)["k"] == "switch")
    return sws.index(sb)


# ------------------------------------------------------------------------------------------------
def _r197(ck, prog, cfg):
    n = 0
    for f in prog.lib_fns():
        if f.file != "src/replication/gossip_router.rs" or "::tests::" in f.id:
            continue
        builds = [st for b, i, st in f.stmts() if st["rv"]["k"] == "agg" and str(st["rv"].get("n", "")).endswith("gossip_router::GossipRouter")]
        if not builds:
            continue
        n += 1
        bad = []
        for g in prog.with_children(f):
            for b, t in g.calls():
                c = callee(t) or ""
                if re.search(r"RwLock::<replication::hash_ring::HashRing>::(read|write|try_read|try_write)$|replication::hash_ring::HashRing::", c):
                    bad.append("reads the ring (%s)" % c.rsplit("::", 1)[-1])
                if re.search(r"HashMap::<replication::lattice::ReplicaId, std::string::String.*>::(retain|remove|drain|clear|extract_if|remove_entry)(::<.*>)?$", c):
                    bad.append("narrows the address map (%s)" % c.rsplit("::", 1)[-1].split("<")[0])
        ck.check(not bad, "R19.7", "%s:address-book-as-configured%s" % (f.short, _tag(cfg)),
                 "GossipRouter::%s %s while building the router: targets would be decided by the membership at construction time instead of by "
                 "the ring at routing time" % (f.short, " and ".join(sorted(set(bad)))), f.where(), detail="no ring access, no pruning in the constructor")
    ck.floor("R19.7" + _tag(cfg), n, 1)


def _r198(ck, prog, cfg):
    n = 0
    RING = "replication::hash_ring::HashRing"
    for f in prog.lib_fns():
        if "::tests::" in f.id:
            continue
        for b, i, st in f.stmts():
            pr = st["lhs"].get("p", [])
            fs = [e for e in pr if isinstance(e, dict) and "f" in e]
            if fs and pr[-1] is fs[-1] and fs[-1]["f"] == "replication_factor" and fs[-1].get("o") == RING:
                ck.bad("R19.8", "%s:store-replication_factor%s" % (f.id.replace("replication::hash_ring::", ""), _tag(cfg)),
                       "HashRing.replication_factor is overwritten after construction: the owner count then depends on the membership history "
                       "(a clamp on removal is never undone when nodes join again), not on (members, configured RF)", f.where(st["ln"]))
            if st["rv"]["k"] == "agg" and str(st["rv"].get("n", "")) == RING:
                n += 1
    ck.check(n >= 1, "R19.8", "constructed-with-rf" + _tag(cfg), "no HashRing constructor found", None, detail="%d constructor aggregate(s); no later store" % n)


def _r199(ck, prog, cfg):
    fs = [f for f in prog.lib_fns() if f.id == "replication::gossip::GossipState::drain_outbound"]
    if not fs:
        ck.anchor_lost("R19.9", "GossipState::drain_outbound not found")
        return
    f = fs[0]
    bad = []
    for g in prog.with_children(f):
        for b, t in g.calls():
            c = callee(t) or ""
            if re.search(r"Vec::<.*>::(dedup|dedup_by|dedup_by_key|retain|retain_mut|truncate|append|sort\w*|swap_remove|remove|insert|split_off|drain)(::<.*>)?$", c) or \
                    re.search(r"Iterator>?::(filter|filter_map|take|skip|step_by|rev|take_while|skip_while|fold|reduce|zip)(::<.*>)?$", c):
                bad.append((c.rsplit("::", 1)[-1].split("<")[0], t["ln"]))
    s_ = None
    for b, i, st in f.stmts():
        pass
    ret = [src_of_operand(f, {"cp": {"l": 0}})] if False else []
    takes = [t for _, t in f.calls() if is_callee(t, r"^std::mem::take(::<.*>)?$", r"VecDeque::<.*>::drain", r"Vec::<.*>::drain")]
    ck.check(not bad and bool(takes), "R19.9", "drain_outbound:hands-over-the-queue" + _tag(cfg),
             "drain_outbound edits the queued messages before handing them over (%s): a frame queued for an owner can come out merged away, emptied or "
             "missing" % (bad[:3] or "no mem::take/drain of the queue found"), f.where(bad[0][1]) if bad else f.where(),
             detail="mem::take(&mut self.outbound_queue)")
