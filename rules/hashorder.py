"""Rule H: an unordered (HashMap/HashSet) iteration must not feed an order-sensitive sink."""
import re
from .facts import callee, op_place
from .lib import src_of_operand, is_callee, TRANSPARENT, switch_info
from . import lib2

HASH_ITER_CALLS = (r"(HashMap|HashSet)<.*> as std::iter::IntoIterator>::into_iter$",
                   r"std::collections::(HashMap|HashSet)::<.*>::(iter|keys|values|into_iter|drain|iter_mut|values_mut|into_keys|into_values)$",
                   r"ahash::AHash(Map|Set)::<.*>::(iter|keys|values|into_iter|drain)$", r"AHash(Map|Set)<.*> as std::iter::IntoIterator>::into_iter$")
ORDER_INSENSITIVE = (r"Iterator>::(count|sum|min|max|all|any|min_by_key|max_by_key|min_by|max_by|fold_commutative)$", r"::len$", r"::contains", r"::is_empty$",
                     r"Iterator>::collect::<std::collections::(HashMap|HashSet|BTreeMap|BTreeSet)", r"Iterator>::collect::<ahash::")
ADAPTORS = (r"Iterator>::(map|filter|filter_map|cloned|copied|enumerate|take|skip|chain|zip|flat_map|flatten|inspect|peekable|rev|by_ref|take_while|skip_while)\b",
            r"IntoIterator>::into_iter$")
SORT = (r"<impl \[.*\]>::sort", r"slice::<impl \[T\]>::sort", r"Vec::<.*>::sort", r"BTree", r"BinaryHeap")
RNG_TYPES = ("simulator::rng::DeterministicRng", "io::simulation::SimulatedRng", "rand_chacha::", "buggify::", "dyn io::Rng", "impl io::Rng")


def hash_iterations(fn):
    """[(block, term, kind)] where an unordered collection starts being iterated"""
    out = []
    for b, t in fn.calls():
        if is_callee(t, *HASH_ITER_CALLS):
            out.append((b, t))
    return out


def _consumer_chain(fn, start_local, limit=12):
    """follow the iterator value forward through adaptor calls; returns list of (block, term) consuming calls (non-adaptor uses)"""
    frontier = {start_local}
    consumers = []
    seen_calls = set()
    for _ in range(limit):
        new = set()
        vals = set()
        for l in frontier:
            v, r = lib2.value_aliases(fn, l)
            vals |= v | r
        for b, t in fn.calls():
            if b in seen_calls:
                continue
            uses = [a for a in t["args"] if "c" not in a and op_place(a) is not None and op_place(a)["l"] in vals]
            if not uses:
                continue
            seen_calls.add(b)
            if is_callee(t, *ADAPTORS) and "p" not in t["dest"]:
                new.add(t["dest"]["l"])
            else:
                consumers.append((b, t))
        if not new:
            break
        frontier = new
    return consumers


def loop_body(fn, next_block):
    """blocks of the loop whose head calls Iterator::next at next_block: reachable from the Some edge and reaching back to the head"""
    back = {x for x in fn.reach([next_block]) if next_block in fn.reach([x])}
    return back | {next_block}


def analyse(prog, fn, rng_sensitive=True):
    """returns list of findings dict(kind, ln, what) for unordered iterations in fn with order-sensitive use"""
    out = []
    for b, t in hash_iterations(fn):
        if "p" in t["dest"]:
            continue
        cons = _consumer_chain(fn, t["dest"]["l"])
        src = src_of_operand(fn, t["args"][0], through_calls=TRANSPARENT + (r"Deref>::deref$",)).path()
        for cb, ct in cons:
            if is_callee(ct, *ORDER_INSENSITIVE):
                continue
            if is_callee(ct, r"Iterator>::next$"):
                # for loop (or manual next): look at the body
                body = loop_body(fn, cb)
                is_loop = len(body) > 1
                if not is_loop:
                    out.append({"kind": "pick", "ln": ct["ln"], "what": "takes the first element of an unordered iteration over %s" % src})
                    continue
                sinks = _body_sinks(prog, fn, body, rng_sensitive)
                for s in sinks:
                    s["over"] = src
                    out.append(s)
                continue
            if is_callee(ct, r"Iterator>::collect::<std::vec::Vec<", r"Iterator>::(for_each|fold|reduce|last|nth|find|find_map|position|try_fold|try_for_each)\b",
                         r"Extend<.*>>::extend", r"Vec::<.*>::extend"):
                kind = callee(ct).rsplit("::", 1)[-1].split("<")[0]
                if kind in ("collect", "extend"):
                    # a Vec built in hash order: fine if sorted before any use
                    dl = ct["dest"]["l"] if "p" not in ct["dest"] else None
                    if kind == "collect" and dl is not None and _sorted_later(fn, dl, cb):
                        continue
                    if kind == "collect" and dl is not None and _only_order_insensitive_uses(fn, dl):
                        continue
                    if kind == "collect" and dl is not None and _loop_without_sinks(prog, fn, dl, rng_sensitive):
                        continue
                    out.append({"kind": "vec-in-hash-order", "ln": ct["ln"], "what": "collects an unordered iteration over %s into a Vec that is used without sorting" % src, "over": src,
                                "returned": kind == "collect" and dl == 0})
                else:
                    if kind in ("for_each", "fold") and _closure_is_loop_body(prog, fn, ct, kind, rng_sensitive, src, out):
                        continue
                    out.append({"kind": kind, "ln": ct["ln"], "what": "order-sensitive consumer `%s` on an unordered iteration over %s" % (kind, src), "over": src})
    return out


_MAP_ACC = re.compile(r"^(std::collections::(hash_map::|hash::map::|btree_map::|btree::map::)?(HashMap|HashSet|BTreeMap|BTreeSet)|ahash::(AHashMap|AHashSet)|hashbrown::)")


def _closure_is_loop_body(prog, fn, ct, kind, rng_sensitive, src, out):
    """`it.for_each(|x| body)` / `it.fold(map, |mut m, x| { body; m })` is the for loop with that body: judge the closure body by the same
    sink table (its findings are appended to out).  A fold is read this way only when its accumulator is a map or set - an accumulator of
    any other type may be combined non-commutatively, which the sink table does not see.  False = not resolvable, caller reports the consumer."""
    if not ct.get("args"):
        return False
    s_ = src_of_operand(fn, ct["args"][-1])
    if s_.kind != "agg" or s_.rv.get("ak") != "closure":
        return False
    c = prog.fns.get(s_.rv["n"])
    if c is None:
        return False
    if kind == "fold":
        m = re.search(r"Iterator>::fold::<(.+)$", ct.get("fnargs") or "")
        if not m or not _MAP_ACC.match(m.group(1)):
            return False
    for g in prog.with_children(c):
        for s in _body_sinks(prog, g, set(range(len(g.blocks))), rng_sensitive):
            s["over"] = src
            out.append(s)
    return True


def _sorted_later(fn, local, after_block):
    vals, refs = lib2.value_aliases(fn, local)
    for b, t in fn.calls():
        if is_callee(t, *SORT) and t["args"]:
            a = op_place(t["args"][0])
            s = src_of_operand(fn, t["args"][0], through_calls=TRANSPARENT + (r"DerefMut>::deref_mut$",))
            if (a is not None and a["l"] in (vals | refs)) or (s.local in vals):
                return True
    return False


def _only_order_insensitive_uses(fn, local):
    vals, refs = lib2.value_aliases(fn, local)
    used = False
    for b, t in fn.calls():
        for a in t["args"]:
            p = op_place(a) if "c" not in a else None
            if p is not None and p["l"] in (vals | refs):
                used = True
                if not is_callee(t, r"::len$", r"::is_empty$", r"::contains", r"Deref>::deref$", r"Iterator>::(count|sum|all|any)$"):
                    return False
    return used


def _body_sinks(prog, fn, body, rng_sensitive):
    out = []
    for b in sorted(body):
        t = fn.term(b)
        if t["k"] != "call":
            continue
        if is_callee(t, r"Vec::<.*>::push$", r"VecDeque::<.*>::push_(back|front)$", r"String::push_str$", r"fmt::Write", r"BinaryHeap::<.*>::push$"):
            if "debug" in t.get("x", "") or "tracing" in t.get("x", ""):
                continue
            tgt = src_of_operand(fn, t["args"][0], through_calls=TRANSPARENT + (r"DerefMut>::deref_mut$",))
            # local vec sorted afterwards is fine
            if tgt.local is not None and _sorted_later(fn, tgt.local, b):
                continue
            if is_callee(t, r"BinaryHeap::<.*>::push$"):
                continue
            out.append({"kind": "push", "ln": t["ln"], "what": "pushes into %s in hash-iteration order" % tgt.path()})
        elif re.match(r"^<.+ as std::hash::Hash>::hash::<", t.get("fnargs") or ""):
            out.append({"kind": "hash-fold", "ln": t["ln"], "what": "feeds a shared hasher in hash-iteration order"})
        elif rng_sensitive:
            # a call that receives a seeded RNG (draw per element)
            for a in t["args"]:
                if "c" in a:
                    continue
                p = op_place(a)
                if p is None or "p" in p:
                    continue
                ty = fn.locals[p["l"]]
                if ty.startswith("&mut ") and any(r in ty for r in RNG_TYPES):
                    out.append({"kind": "rng-draw", "ln": t["ln"], "what": "draws from the seeded RNG once per element (%s)" % callee(t).rsplit("::", 1)[-1]})
                    break
            else:
                c = prog.local_callee(fn, t)
                if c is not None and _draws_rng(prog, c, 0, set()):
                    out.append({"kind": "rng-draw", "ln": t["ln"], "what": "calls %s, which draws from the seeded RNG, once per element" % c.short})
    return out


_draw_cache = {}


def _draws_rng(prog, f, depth, seen):
    if f.id in _draw_cache:
        return _draw_cache[f.id]
    if depth > 4 or f.id in seen:
        return False
    seen.add(f.id)
    r = False
    for b, t in f.calls():
        if is_callee(t, r"simulator::rng::DeterministicRng::(next_u64|gen_range|gen_bool|shuffle)$", r"io::simulation::SimulatedRng.*::(next_u64|gen_range|gen_bool|next_float|shuffle)",
                     r"io::Rng>::(next_u64|gen_range|gen_bool|next_float|shuffle)$", r"buggify::should_buggify", r"simulator::rng::buggify$", r"RngCore>::next_u"):
            r = True
            break
        c = prog.local_callee(f, t)
        if c is not None and c.crate == "lib" and _draws_rng(prog, c, depth + 1, seen):
            r = True
            break
    _draw_cache[f.id] = r
    return r


def _loop_without_sinks(prog, fn, local, rng_sensitive):
    """the Vec is only consumed by for-loops whose bodies have no order-sensitive sink (e.g. removing each key from a map)"""
    cons = _consumer_chain(fn, local)
    if not cons:
        return False
    for cb, ct in cons:
        if is_callee(ct, *ORDER_INSENSITIVE) or is_callee(ct, r"::len$", r"Deref>::deref$"):
            continue
        if is_callee(ct, r"Iterator>::next$"):
            body = loop_body(fn, cb)
            if len(body) > 1 and not _body_sinks(prog, fn, body, rng_sensitive):
                continue
        return False
    return True


def caller_orders_result(prog, g, f):
    """For a function f that returns a Vec built in hash order: does caller g neutralise the order at every call of f?
    returns (n_calls, [line numbers of calls whose result is used order-sensitively])"""
    n = 0
    badl = []
    for b, t in g.calls():
        if prog.local_callee(g, t) is not f:
            continue
        n += 1
        if "p" in t["dest"]:
            badl.append(t["ln"])
            continue
        dl = t["dest"]["l"]
        if _sorted_later(g, dl, b) or _only_order_insensitive_uses(g, dl):
            continue
        cons = _consumer_chain(g, dl)
        # `.iter()` / `.into_iter()` on the Vec are adaptors here; every terminal consumer must be order-insensitive
        inner = []
        for cb, ct in cons:
            if is_callee(ct, r"slice::<impl \[.*\]>::iter$", r"Vec<.*> as std::iter::IntoIterator>::into_iter$", r"Deref>::deref$") and "p" not in ct["dest"]:
                inner.extend(_consumer_chain(g, ct["dest"]["l"]))
            else:
                inner.append((cb, ct))
        if inner and all(is_callee(ct, *ORDER_INSENSITIVE) for _, ct in inner):
            continue
        badl.append(t["ln"])
    return n, badl
