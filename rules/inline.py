"""Virtual inlining of *fresh private helpers* into their callers, at the level of the MIR facts.

Why: the rules are intra-procedural (dominance, paths, provenance inside one function body).  The most common clean-up commit -
"extract a private helper", "split a long function", "merge two duplicated tails into one function" - moves the sites a rule
reasons about into another body and would make the rule either blind or alarmed although nothing changed.  Treating such a
helper as transparent (Min et al.: summarise a wrapper by what all its paths do) is done here in the most literal way: its body
is spliced into every caller, parameters bound by assignment, `return` turned into an assignment of the call's destination and a
jump to the continuation.  For `async fn` helpers the coroutine body is spliced in at the `.await` of the call.

Which callees: functions that did not exist on the reference tree (`rules/known_fns.txt`), defined in the same crate as the
caller, not `pub`, non-recursive, bounded in size and depth.  Functions that existed on the reference tree keep their identity:
they are the vocabulary the rules are written in (`is_expired`, `hash_key_bytes`, `encode_resp_into`, `sync`, ...).
"""
import copy
import os
import re

from .facts import Fn, Program, VERIF, callee_names

KNOWN_FILE = os.path.join(VERIF, "rules", "known_fns.txt")
MAX_BLOCKS = 600
MAX_DEPTH = 3
_known = None


def known_fns():
    global _known
    if _known is None:
        s = set()
        if os.path.exists(KNOWN_FILE):
            for line in open(KNOWN_FILE):
                line = line.strip()
                if line and not line.startswith("#"):
                    s.add(line)
        _known = s
    return _known


def norm_id(fid):
    return re.sub(r"\{closure#\d+\}", "{closure}", fid)


def is_fresh(f):
    k = known_fns()
    return bool(k) and norm_id(f.id) not in k


# ------------------------------------------------------------------------------------------------
def _rw(x, lmap, upvar=None):
    """deep copy of a statement/operand/place JSON value with locals remapped.
    upvar: (coroutine self local, {field index str: local}) - places `_1.N...` become `_U_N...`"""
    if isinstance(x, dict):
        if "l" in x and isinstance(x["l"], int):
            p = list(x.get("p", []))
            l = x["l"]
            if upvar is not None and l == upvar[0] and p and isinstance(p[0], dict) and p[0].get("f") in upvar[1]:
                nl = upvar[1][p[0]["f"]]
                p = p[1:]
            else:
                nl = lmap(l)
            out = {"l": nl}
            if p:
                out["p"] = [({"ix": lmap(e["ix"])} if isinstance(e, dict) and "ix" in e and isinstance(e["ix"], int) else copy.deepcopy(e)) for e in p]
            return out
        return {k: _rw(v, lmap, upvar) for k, v in x.items()}
    if isinstance(x, list):
        return [_rw(v, lmap, upvar) for v in x]
    return x


def _rw_term(t, lmap, boff, upvar=None):
    out = {}
    for k, v in t.items():
        if k in ("to", "uw", "imag", "else", "drop") and isinstance(v, int):
            out[k] = v + boff
        elif k == "cases":
            out[k] = [[c[0], c[1] + boff] for c in v]
        else:
            out[k] = _rw(v, lmap, upvar)
    return out


def _async_body(prog, h):
    """(coroutine Fn, {upvar index str: param local of h}) if h is an `async fn` shell, else None"""
    if len(h.blocks) > 4:
        return None
    for b in h.blocks:
        for st in b["st"]:
            rv = st["rv"]
            if st["lhs"] == {"l": 0} and rv["k"] == "agg" and rv.get("ak") == "coroutine":
                c = prog.fns.get(rv["n"]) or prog.fns.get((h.crate + "::" + rv["n"]) if h.crate != "lib" else rv["n"])
                if c is None:
                    return None
                up = {}
                for j, o in enumerate(rv.get("ops", [])):
                    pl = o.get("cp") or o.get("mv")
                    if pl is None or "p" in pl or not (1 <= pl["l"] <= h.d["argc"]):
                        return None
                    up[str(j)] = pl["l"]
                return c, up
    return None


class _Host:
    def __init__(self, f):
        self.f = f
        self.d = copy.deepcopy(f.d)
        self.chain = {i: () for i in range(len(self.d["blocks"]))}     # block -> tuple of inlined callee ids it came from
        self.inlined = []

    def fn(self):
        self.d["inlined_from"] = self.inlined
        return Fn(self.d, self.f.crate)


def _known_discr(prog, st_list, local):
    """if the last whole assignment to `local` in this statement list is an aggregate of an enum variant (or a bool constant):
    the value a `discriminant(local)` / bool switch would see, as a string; else None"""
    for st in reversed(st_list):
        if st["lhs"] == {"l": local}:
            rv = st["rv"]
            if rv["k"] == "agg" and rv.get("ak") == "adt":
                n = rv.get("n", "")
                base, _, var = n.rpartition("::")
                if base.startswith("std::option::Option"):
                    return {"None": "0", "Some": "1"}.get(var)
                if base.startswith("std::result::Result"):
                    return {"Ok": "0", "Err": "1"}.get(var)
                a = prog.adts.get(base)
                if a:
                    for i, v in enumerate(a["variants"]):
                        if v["n"] == var:
                            return str(i)
                return None
            if rv["k"] == "use" and "c" in rv["a"]:
                c = rv["a"]["c"].strip()
                if c in ("const true", "true"):
                    return "1"
                if c in ("const false", "false"):
                    return "0"
            return None
        if st["lhs"].get("l") == local:
            return None
    return None


def _thread_target(d, cont, dest_local, value):
    """jump threading across the inlined return: if the continuation block only reads the discriminant of the call's destination
    (or the destination itself, a bool) and switches on it, the return site can go straight to the matching case"""
    seen = 0
    b = cont
    while seen < 3:
        seen += 1
        blk = d["blocks"][b]
        t = blk["t"]
        if t["k"] in ("goto", "falseedge") and not blk["st"]:
            b = t["to"]
            continue
        if t["k"] != "switch":
            return None
        sw = t["d"].get("mv") or t["d"].get("cp")
        if sw is None or "p" in sw:
            return None
        if len(blk["st"]) == 0 and sw["l"] == dest_local:
            pass
        elif len(blk["st"]) == 1 and blk["st"][0]["lhs"] == {"l": sw["l"]} and blk["st"][0]["rv"]["k"] == "discr" and \
                blk["st"][0]["rv"]["pl"] == {"l": dest_local}:
            pass
        elif len(blk["st"]) == 1 and blk["st"][0]["lhs"] == {"l": sw["l"]} and blk["st"][0]["rv"]["k"] == "use" and \
                (blk["st"][0]["rv"]["a"].get("mv") or blk["st"][0]["rv"]["a"].get("cp")) == {"l": dest_local}:
            pass
        else:
            return None
        for v, tg in t["cases"]:
            if v == value:
                return tg
        return t["else"]
    return None


def _inline_sync(host, B, g, prog):
    d = host.d
    t = d["blocks"][B]["t"]
    base = len(d["locals"])
    boff = len(d["blocks"])
    d["locals"] = d["locals"] + list(g.d["locals"])
    lmap = lambda l: base + l
    chain = host.chain[B] + (g.id,)
    rets = []
    for i, b in enumerate(g.blocks):
        nb = {"cleanup": b.get("cleanup", False), "st": [_rw(s, lmap) for s in b["st"]], "t": _rw_term(b["t"], lmap, boff)}
        if nb["t"]["k"] == "return":
            kd = _known_discr(prog, nb["st"], base)
            nb["st"].append({"lhs": copy.deepcopy(t["dest"]), "rv": {"k": "use", "a": {"mv": {"l": base}}}, "ln": t.get("ln"), "x": "inl:ret"})
            nb["t"] = {"k": "goto", "to": t["to"], "ln": b["t"].get("ln")} if "to" in t else {"k": "unreachable", "ln": b["t"].get("ln")}
            if kd is not None and "to" in t and "p" not in t["dest"]:
                rets.append((boff + i, kd))
        d["blocks"].append(nb)
        host.chain[boff + i] = chain
    # jump threading: a return site whose value has a known variant goes straight to the matching arm of the caller's match
    for rb, kd in rets:
        tg = _thread_target(d, t["to"], t["dest"]["l"], kd)
        if tg is not None:
            d["blocks"][rb]["t"] = {"k": "goto", "to": tg, "ln": d["blocks"][rb]["t"].get("ln"), "x": "inl:threaded"}
    # the usual shape is one shared, empty `return` block reached by `goto` from blocks that each assign _0: thread per predecessor
    if "to" in t and "p" not in t["dest"]:
        for i, b in enumerate(g.blocks):
            if b["t"]["k"] != "return" or b["st"]:
                continue
            R = boff + i
            # blocks that lead to R through empty goto/drop links only
            links = {R}
            grew = True
            while grew:
                grew = False
                for j in range(boff, boff + len(g.blocks)):
                    pb = d["blocks"][j]
                    if j not in links and not pb["st"] and pb["t"]["k"] in ("goto", "drop") and pb["t"].get("to") in links:
                        links.add(j)
                        grew = True
            for j in range(boff, boff + len(g.blocks)):
                pb = d["blocks"][j]
                if j in links or pb["t"]["k"] not in ("goto", "drop") or pb["t"].get("to") not in links:
                    continue
                kd = _known_discr(prog, pb["st"], base)
                if kd is None:
                    continue
                tg = _thread_target(d, t["to"], t["dest"]["l"], kd)
                if tg is not None:
                    pb["st"].append({"lhs": copy.deepcopy(t["dest"]), "rv": {"k": "use", "a": {"mv": {"l": base}}}, "ln": t.get("ln"), "x": "inl:ret"})
                    nt = dict(pb["t"])
                    nt["to"] = tg
                    nt["x"] = "inl:threaded"
                    pb["t"] = nt
    # parameter binding
    P = len(d["blocks"])
    st = []
    for i in range(1, g.d["argc"] + 1):
        if i - 1 < len(t["args"]):
            st.append({"lhs": {"l": base + i}, "rv": {"k": "use", "a": copy.deepcopy(t["args"][i - 1])}, "ln": t.get("ln"), "x": "inl:arg"})
    d["blocks"].append({"cleanup": False, "st": st, "t": {"k": "goto", "to": boff, "ln": t.get("ln")}})
    host.chain[P] = chain
    d["blocks"][B]["t"] = {"k": "goto", "to": P, "ln": t.get("ln"), "x": "inl:call:" + g.id}
    for n in g.d["names"]:
        d["names"].append({"n": n["n"], "pl": _rw(n["pl"], lmap)})
    host.inlined.append(g.id)


def _inline_async(host, B, h, c, up, prog, rl, br, si):
    """splice coroutine c (body of async fn h) in at the await of the call in block B; rl/br/si: local, block and statement index
    of `rl = (poll result as Ready).0` in the host"""
    d = host.d
    t = d["blocks"][B]["t"]
    base = len(d["locals"])
    d["locals"] = d["locals"] + list(c.d["locals"])
    ubase = len(d["locals"])
    umap = {}
    for j, pl in sorted(up.items(), key=lambda kv: int(kv[0])):
        umap[j] = ubase + int(j)
    # types of the upvar locals: the parameter types of h
    maxj = max([int(j) for j in up] + [-1])
    for j in range(maxj + 1):
        d["locals"].append(h.d["locals"][up[str(j)]] if str(j) in up else "?")
    boff = len(d["blocks"])
    lmap = lambda l: base + l
    upv = (1, umap)
    chain = host.chain[B] + (h.id, c.id)
    # continuation: the rest of block br after the Ready extraction
    brb = d["blocks"][br]
    CONT = boff + len(c.blocks)
    for i, b in enumerate(c.blocks):
        nb = {"cleanup": b.get("cleanup", False), "st": [_rw(s, lmap, upv) for s in b["st"]], "t": _rw_term(b["t"], lmap, boff, upv)}
        if nb["t"]["k"] == "return":
            nb["st"].append({"lhs": {"l": rl}, "rv": {"k": "use", "a": {"mv": {"l": base}}}, "ln": t.get("ln"), "x": "inl:ret"})
            nb["t"] = {"k": "goto", "to": CONT, "ln": b["t"].get("ln")}
        d["blocks"].append(nb)
        host.chain[boff + i] = chain
    d["blocks"].append({"cleanup": False, "st": copy.deepcopy(brb["st"][si + 1:]), "t": copy.deepcopy(brb["t"])})
    host.chain[CONT] = host.chain[br]
    P = len(d["blocks"])
    st = []
    for j, pl in sorted(up.items(), key=lambda kv: int(kv[0])):
        ai = pl - 1
        if ai < len(t["args"]):
            st.append({"lhs": {"l": umap[j]}, "rv": {"k": "use", "a": copy.deepcopy(t["args"][ai])}, "ln": t.get("ln"), "x": "inl:arg"})
    d["blocks"].append({"cleanup": False, "st": st, "t": {"k": "goto", "to": boff, "ln": t.get("ln")}})
    host.chain[P] = chain
    d["blocks"][B]["t"] = {"k": "goto", "to": P, "ln": t.get("ln"), "x": "inl:await:" + h.id}
    for n in c.d["names"]:
        d["names"].append({"n": n["n"], "pl": _rw(n["pl"], lmap, upv)})
    host.inlined.extend([h.id, c.id])


def _candidate(prog, host_fn, t, chain, no_inline):
    g = prog.local_callee(host_fn, t)
    if g is None or g.id == host_fn.id or g.id in chain or not is_fresh(g):
        return None
    if g.crate != host_fn.crate or g.d.get("vis") == "pub" or g.kind not in ("fn", "method"):
        return None
    if no_inline is not None and no_inline(g):
        return None
    if len(g.blocks) > MAX_BLOCKS:
        return None
    return g


def inline_fn(prog, f, no_inline=None):
    """Fn with every call to a fresh private same-file helper spliced in (depth <= MAX_DEPTH); f itself if nothing applies"""
    from . import lib2
    host = None
    cur = f
    for _round in range(12):
        work = None
        for B, b in enumerate(cur.blocks):
            t = b["t"]
            if t["k"] != "call" or "p" in t.get("dest", {}) and False:
                continue
            chain = host.chain.get(B, ()) if host is not None else ()
            if len(chain) >= MAX_DEPTH * 2:
                continue
            if B not in cur.reachable_blocks():
                continue
            g = _candidate(prog, cur, t, chain, no_inline)
            if g is None:
                continue
            ab = _async_body(prog, g)
            if ab is not None:
                c, up = ab
                if len(c.blocks) > MAX_BLOCKS or c.id in chain:
                    continue
                aw = lib2.await_result(cur, B)
                if aw is None:
                    continue
                rl, br = aw
                si = None
                for k, st in enumerate(cur.blocks[br]["st"]):
                    if st["lhs"] == {"l": rl}:
                        si = k
                if si is None:
                    continue
                work = ("async", B, g, c, up, rl, br, si)
            else:
                if "p" in t["dest"]:
                    continue
                work = ("sync", B, g)
            break
        if work is None:
            break
        if host is None:
            host = _Host(f)
        if work[0] == "sync":
            _inline_sync(host, work[1], work[2], prog)
        else:
            _inline_async(host, work[1], work[2], work[3], work[4], prog, work[5], work[6], work[7])
        nf = Fn(host.d, f.crate)
        cur = nf
    if host is None:
        return f
    return host.fn()


# ------------------------------------------------------------------------------------------------
# `iter.for_each(|x| body)` -> the explicit loop it abbreviates, in the few batch-handling functions whose rules are stated per iteration
# (every element of a delivered/recovered batch reaches its sink).  `for x in it { body }` <-> `it.for_each(|x| body)` is the commonest
# loop rewrite; without this the per-iteration rules would have to be written twice.
FOR_EACH_HOSTS = (r"ReplicatedShardedState::<T>::apply_remote_deltas$", r"ReplicatedShardedState::<T>::apply_recovered_state$",
                  r"simulator::multi_node::SimulatedNode::apply_remote_deltas$", r"anti_entropy::StateDigest::from_state$")


def _splice_for_each(host, B, c, clo_local, it_local):
    d = host.d
    t = d["blocks"][B]["t"]
    base = len(d["locals"])
    boff = len(d["blocks"])
    d["locals"] = d["locals"] + list(c.d["locals"])
    itref = len(d["locals"])
    item_ty = c.d["locals"][2] if c.d["argc"] >= 2 and len(c.d["locals"]) > 2 else "?"
    d["locals"] = d["locals"] + ["&mut " + str(d["locals"][it_local]), "std::option::Option<%s>" % item_ty, "isize"]
    nx, disc = itref + 1, itref + 2
    lmap = lambda l: base + l
    nbody = len(c.blocks)
    H, S, P, U = boff + nbody, boff + nbody + 1, boff + nbody + 2, boff + nbody + 3
    chain = host.chain[B] + (c.id,)
    for i, b in enumerate(c.blocks):
        nb = {"cleanup": b.get("cleanup", False), "st": [_rw(s_, lmap) for s_ in b["st"]], "t": _rw_term(b["t"], lmap, boff)}
        if nb["t"]["k"] == "return":
            nb["t"] = {"k": "goto", "to": H, "ln": b["t"].get("ln"), "x": "inl:for_each:next-iteration"}
        d["blocks"].append(nb)
        host.chain[boff + i] = chain
    ln = t.get("ln")
    it_ty = str(d["locals"][it_local])
    d["blocks"].append({"cleanup": False,
                        "st": [{"lhs": {"l": itref}, "rv": {"k": "ref", "mut": True, "fake": False, "pl": {"l": it_local}}, "ln": ln, "x": "inl:for_each"}],
                        "t": {"k": "call", "fn": "std::iter::Iterator::next", "fnargs": "<%s as std::iter::Iterator>::next" % it_ty,
                              "trait": "std::iter::Iterator", "selfty": it_ty, "args": [{"mv": {"l": itref}}], "dest": {"l": nx}, "to": S, "ln": ln,
                              "x": "inl:for_each"}})
    d["blocks"].append({"cleanup": False,
                        "st": [{"lhs": {"l": disc}, "rv": {"k": "discr", "pl": {"l": nx}, "t": "std::option::Option<%s>" % item_ty}, "ln": ln, "x": "inl:for_each"}],
                        "t": {"k": "switch", "d": {"mv": {"l": disc}}, "dt": "isize", "cases": [["0", t["to"]], ["1", P]], "else": U, "ln": ln}})
    d["blocks"].append({"cleanup": False,
                        "st": [{"lhs": {"l": base + 1}, "rv": {"k": "ref", "mut": True, "fake": False, "pl": {"l": clo_local}}, "ln": ln, "x": "inl:arg"},
                               {"lhs": {"l": base + 2}, "rv": {"k": "use", "a": {"mv": {"l": nx, "p": [{"dc": "Some"}, {"f": "0", "o": "std::option::Option::Some", "t": item_ty}]}}},
                                "ln": ln, "x": "inl:arg"}],
                        "t": {"k": "goto", "to": boff, "ln": ln}})
    d["blocks"].append({"cleanup": False, "st": [], "t": {"k": "unreachable", "ln": ln}})
    for j in (H, S, P, U):
        host.chain[j] = chain
    d["blocks"][B]["t"] = {"k": "goto", "to": H, "ln": ln, "x": "inl:for_each:" + c.id}
    for n in c.d["names"]:
        d["names"].append({"n": n["n"], "pl": _rw(n["pl"], lmap)})
    host.inlined.append(c.id)


def expand_for_each(prog, f):
    if not any(re.search(p_, f.id) for p_ in FOR_EACH_HOSTS):
        return f
    from .lib import src_of_operand
    from .facts import op_local, callee
    host = None
    cur = f
    for _round in range(6):
        found = None
        for B, b in enumerate(cur.blocks):
            t = b["t"]
            if t["k"] != "call" or "to" not in t or len(t.get("args", [])) < 2 or B not in cur.reachable_blocks():
                continue
            if not any(re.search(r"Iterator>::for_each(::<.*>)?$|^std::iter::Iterator::for_each$", n_) for n_ in callee_names(t)):
                continue
            s_ = src_of_operand(cur, t["args"][1])
            if s_.kind != "agg" or s_.rv.get("ak") != "closure":
                continue
            c = prog.fns.get(s_.rv["n"])
            clo_local, it_local = op_local(t["args"][1]), op_local(t["args"][0])
            if c is None or len(c.blocks) > MAX_BLOCKS or clo_local is None or it_local is None or c.d["argc"] < 2:
                continue
            found = (B, c, clo_local, it_local)
            break
        if found is None:
            break
        if host is None:
            host = _Host(cur if isinstance(cur, Fn) else f)
        _splice_for_each(host, *found)
        cur = Fn(host.d, f.crate)
    return host.fn() if host is not None else f


# ------------------------------------------------------------------------------------------------
_views = {}


class _FnMap(dict):
    """id -> Fn; iteration over values()/items() leaves out helpers that were inlined at every call site (lookups still work)"""
    hidden = frozenset()

    def values(self):
        return [v for k, v in dict.items(self) if k not in self.hidden]

    def items(self):
        return [(k, v) for k, v in dict.items(self) if k not in self.hidden]


def inlined_view(prog, no_inline=None, tag=""):
    """a Program in which every function has its fresh private helpers inlined and helpers that were inlined at all their call
    sites no longer show up in lib_fns() (they remain in .fns for call-graph purposes)."""
    key = (id(prog), tag)
    if key in _views:
        return _views[key]
    if not known_fns():
        _views[key] = _with_loops(prog, prog)
        return _views[key]
    fresh = [f for f in prog.fns.values() if f.kind in ("fn", "method") and is_fresh(f) and f.d.get("vis") != "pub"]
    if not fresh:
        _views[key] = _with_loops(prog, prog)
        return _views[key]
    v = object.__new__(Program)
    v.dir = prog.dir
    v.adts = prog.adts
    v.crates = prog.crates
    v.fns = _FnMap(prog.fns)
    v._children = None
    v._cg = None
    v.hidden = set()
    v.base = prog
    # only functions that (transitively) call a fresh helper need work
    fresh_ids = {f.id for f in fresh}
    callers = set()
    for f in prog.fns.values():
        for b, t in f.calls(reachable_only=False):
            c = prog.local_callee(f, t)
            if c is not None and c.id in fresh_ids:
                callers.add(f.id)
    remaining_calls = {fid: 0 for fid in fresh_ids}
    for fid in sorted(callers):
        f = prog.fns[fid]
        nf = inline_fn(prog, f, no_inline)
        v.fns[fid] = nf
    # a fresh helper is hidden when no call to it is left anywhere in the view
    for f in v.fns.values():
        if f.id in fresh_ids and f.id not in callers:
            pass
        for b, t in f.calls(reachable_only=False):
            c = prog.local_callee(f, t)
            if c is not None and c.id in fresh_ids and f.id not in fresh_ids:
                remaining_calls[c.id] += 1
    for fid in fresh_ids:
        had_callers = any(True for _ in [1]) and any(fid in (nf.d.get("inlined_from") or []) for nf in v.fns.values())
        if had_callers and remaining_calls[fid] == 0:
            v.hidden.add(fid)
            ab = _async_body(prog, prog.fns[fid])
            if ab is not None:
                v.hidden.add(ab[0].id)
    v.fns.hidden = frozenset(v.hidden)
    v = _with_loops(prog, v)
    _views[key] = v
    return v


def _with_loops(base_prog, view):
    """the view with for_each calls of the batch-handling hosts expanded into explicit loops (a new view only if something changed)"""
    changed = {}
    for fid, f in list(dict.items(view.fns)):
        if any(re.search(p_, fid) for p_ in FOR_EACH_HOSTS):
            nf = expand_for_each(base_prog, f)
            if nf is not f:
                changed[fid] = nf
    if not changed:
        return view
    if view is base_prog:
        v = object.__new__(Program)
        v.dir = base_prog.dir
        v.adts = base_prog.adts
        v.crates = base_prog.crates
        v.fns = _FnMap(base_prog.fns)
        v._children = None
        v._cg = None
        v.hidden = set()
        v.base = base_prog
        view = v
    hid = set(getattr(view.fns, "hidden", frozenset()))
    for fid, nf in changed.items():
        view.fns[fid] = nf
        for cid in nf.d.get("inlined_from") or []:
            hid.add(cid)
    view.fns.hidden = frozenset(hid)
    view._children = None
    return view
