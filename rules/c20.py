"""C20 — simulation is reproducible: forbidden-effect, seeded-RNG and hash-order clauses."""
import re
from .facts import callee, callee_names, op_place
from .lib import src_of_operand, is_callee, TRANSPARENT
from . import hashorder, lib2

FORBIDDEN = re.compile(r"SystemTime::now|std::time::Instant::now|thread_rng|rand::random|from_entropy|std::process::id|std::env::var|"
                       r"std::thread::spawn|getrandom|std::fs::|TcpStream|TcpListener|UdpSocket|RandomState::new|tokio::time::(sleep|interval|Instant::now)|"
                       r"OsRng|std::thread::current|ThreadId|"
                       # a process-keyed hasher whose *output* is used as a value (placement, bucket, id); hash collections only matter through rule H
                       r"<ahash::AHasher as std::default::Default>::default|ahash::RandomState::(new|default)|<ahash::RandomState as std::default::Default>::default|"
                       r"<std::(collections::)?hash(_map)?::RandomState as std::default::Default>::default")
PRODUCTION = re.compile(r"io::production::|ProductionClock|ProductionTimeSource|ProductionRng|LocalWalStore|LocalFsObjectStore|S3ObjectStore")

# (function id regex, callee regex) -> reason.  Each was read; the effect does not feed the operation trace, final state or verdict.
EFFECT_EXCEPTIONS = [
    (r"streaming::simulated_store::.*", r"tokio::time::sleep", "simulated latency only delays the future; no value is read from the timer"),
    (r"streaming::clock::ProductionClock::new$", r"SystemTime::now|Instant::now",
     "reached through StreamingPersistence::new in the streaming/compaction DST harnesses: the clock only feeds last_flush/should_flush, "
     "which no harness calls (condition checked: should_flush not reachable)"),
    (r"streaming::persistence::StreamingPersistence::<S>::new::\{closure\}$", r"ProductionClock::new", "same as above (constructor of the default clock)"),
    (r"streaming::compaction::Compactor::<S>::new$", r"ProductionTimeSource::new",
     "compaction DST builds the Compactor with the production time source: now_millis only feeds the tombstone cutoff, which is compared with "
     "Lamport times (~1e3) against epoch millis (~1e12): the outcome is the same in every run (see C13 known finding R13.2)"),
    (r"redis::executor::acl_ops::.*execute_acl_genpass$", r"SystemTime::now",
     "ACL GENPASS only; no harness constructs Command::AclGenPass (condition checked)"),
]
# (function id regex, finding kind) -> reason
HASH_EXCEPTIONS = [
    (r"redis::data::hash::RedisHash::(get_all|keys|values)$", "vec-in-hash-order", "order of an unordered multi-element reply (HGETALL/HKEYS/HVALS); DST oracles compare as sets; not part of the operation trace"),
    (r"redis::data::set::RedisSet::members$", "vec-in-hash-order", "SMEMBERS reply order; compared as a set"),
    (r"redis::data::set::RedisSet::(pop|pop_count)$", "(pick|push)", "SPOP picks in hash order: allowed only while no harness constructs Command::SPop (condition checked)"),
    (r"redis::executor::CommandExecutor::execute$", "find", "RANDOMKEY: allowed only while no harness constructs Command::RandomKey (condition checked)"),
    (r"redis::executor::config_ops::ServerConfig::get_matching$", "vec-in-hash-order", "CONFIG GET reply order"),
    (r"redis::executor::key_ops::.*execute_keys$", "vec-in-hash-order", "KEYS reply order; compared as a set"),
    (r"replication::anti_entropy::AntiEntropyManager::get_keys_in_buckets$", "vec-in-hash-order",
     "which keys are shipped first matters only when a divergent bucket set holds more than max_keys_per_sync (1000) keys; harness workloads stay below (condition checked: the default limit in AntiEntropyConfig::default() is still >= 1000; the harness workloads themselves are an assumption, stated)"),
    (r"replication::anti_entropy::StateDigest::from_state$", "push", "the per-bucket lists are sorted before the fold (condition checked: a sort call exists in from_state; decided by C18 R18.1)"),
]
COND_COMMANDS = {"execute_acl_genpass": "AclGenPass", "RedisSet::(pop|pop_count)": "SPop", "CommandExecutor::execute$": "RandomKey"}


def _tag(cfg):
    return "" if cfg == "default" else "@" + cfg


def is_harness(f):
    return f.crate == "lib" and (f.file.endswith("_dst.rs") or f.file.startswith("src/simulator/") or f.file == "src/io/simulation.rs" or
                                 f.file.startswith("src/buggify/") or f.file == "src/streaming/dst.rs")


def resolved_reach(prog, entries):
    seen = {}
    work = []
    for f in entries:
        seen[f.id] = None
        work.append(f.id)
    while work:
        x = work.pop()
        f = prog.fns[x]
        for c in prog.children(f):
            if c.id not in seen:
                seen[c.id] = x
                work.append(c.id)
        for b, t in f.calls(reachable_only=False):
            c = prog.local_callee(f, t)
            if c is not None and c.id not in seen:
                seen[c.id] = x
                work.append(c.id)
            for a in t["args"]:
                if "fn" in a:
                    c2 = prog.local_callee(f, {"fn": a["fn"]})
                    if c2 is not None and c2.id not in seen:
                        seen[c2.id] = x
                        work.append(c2.id)
    return seen


def _path(seen, x, n=5):
    out = [x]
    while seen.get(x) is not None and len(out) < n:
        x = seen[x]
        out.append(x)
    return out


def run(ck, ctx):
    ck.rule("R20.1", "no ambient nondeterminism reachable from a harness entry point through resolved calls (wall clocks, OS randomness, "
                     "process id, environment, threads, real files/sockets), and no production implementation of an injected interface is "
                     "named there; frozen exceptions carry a reason and, where possible, a checked side condition")
    ck.rule("R20.2", "all randomness is seeded: every RNG constructed in reachable code is seed_from_u64(x)/from_seed(x) with x coming from a "
                     "parameter or configuration field")
    ck.rule("R20.3", "no hash-order leak (rule H): an iteration over a HashMap/HashSet/AHash* reachable from a harness must not push into an "
                     "unsorted Vec/queue, feed a shared hasher, pick 'the first' element, or draw from the seeded RNG per element")
    ck.rule("R20.4", "event order is not hash-based: Ord for Event compares virtual time only and the queue is a BinaryHeap; simulated time "
                     "is written only by the simulator's own advance functions")
    ck.rule("R20.5", "fault decisions are a function of the current configuration and the seeded RNG only: in should_buggify* the threshold "
                     "the random draw is compared with comes from FaultConfig::get on the context's current config (or from the probability "
                     "parameter) - never from state that survives set_config (a cache, a counter) - and the draw comes from the RNG argument")
    ck.rule("R20.6", "no ambient process state: code reachable from a harness reads or writes no `static` that can change at run time "
                     "(static mut, atomics, locks, cells) and no thread-local other than the BUGGIFY context (which set_config replaces "
                     "and R20.5 covers); such state outlives a simulation, so a trace would depend on what else ran in the process")
    ck.nd("equality of traces across processes (needs two runs - a different family)")
    ck.assume("trait-dispatched calls inside generic code are not followed: a production implementation can only be dispatched to if its type "
              "is named in reachable code, which R20.1 checks")
    # the BUGGIFY call sites of the harnesses only exist with `--features simulation`: analyse that configuration in the quick tier too
    for cfg in (ctx.configs if "optall" in ctx.configs else list(ctx.configs) + ["optall"]):
        prog = ctx.prog(cfg)
        ck.configs.append(cfg)
        ck.fn_count += len(prog.fns)
        entries = [f for f in prog.lib_fns() if is_harness(f) and f.kind in ("fn", "method") and f.d.get("vis") == "pub"]
        ck.floor("R20-entries" + _tag(cfg), len(entries), 400)
        seen = resolved_reach(prog, entries)
        ck.extra["entries"] = len(entries)
        ck.extra["reachable_functions"] = len(seen)
        built = _constructed_commands(prog, seen)
        _r201(ck, prog, cfg, seen, built)
        _r202(ck, prog, cfg, seen)
        _r203(ck, prog, cfg, seen, built)
        _r204(ck, prog, cfg)
        _r205(ck, prog, cfg)
        _r206(ck, prog, cfg, seen)


def _constructed_commands(prog, seen):
    """Command variants constructed (aggregate) in harness files; None if a harness parses commands from bytes (then: all)"""
    out = set()
    parses = False
    direct = set()
    for x in seen:
        f = prog.fns[x]
        if not is_harness(f):
            continue
        for b, t in f.calls(reachable_only=False):
            c = prog.local_callee(f, t)
            if c is not None and not is_harness(c):
                direct.add(c.id)
        for b, i, st in f.stmts():
            rv = st["rv"]
            if rv["k"] == "agg" and rv["n"].startswith("redis::command::Command::"):
                out.add(rv["n"].rsplit("::", 1)[-1])
        for b, t in f.calls():
            if is_callee(t, r"Command>::from_resp(_zero_copy)?$", r"Command::from_resp"):
                parses = True
    return out, parses, direct


def _cond_ok(fid, built):
    """side condition of a conditional exception: no harness builds the command that leads there, and no harness calls the function
    itself (a DST harness that drives the data structure directly reaches the hash-order pick without any Command)"""
    cmds, parses, direct = built
    for pat, variant in COND_COMMANDS.items():
        if re.search(pat, fid):
            # the dispatcher itself is of course called by every harness: for it only the constructed variant counts
            if pat.endswith("execute$"):
                return variant not in cmds
            return variant not in cmds and not any(re.search(pat, d) for d in direct)
    return True


def _r201(ck, prog, cfg, seen, built):
    n = 0
    should_flush_reach = any(x.endswith("::should_flush") for x in seen)
    for x in sorted(seen):
        f = prog.fns[x]
        for b, t in f.calls():
            nm = " ".join(callee_names(t))
            m = FORBIDDEN.search(nm) or PRODUCTION.search(nm)
            if not m:
                continue
            n += 1
            fid = re.sub(r"\{closure#\d+\}", "{closure}", f.id)
            exc = None
            for fp, cp, why in EFFECT_EXCEPTIONS:
                if re.search(fp, fid) and re.search(cp, nm):
                    exc = why
            key = "%s->%s%s" % (fid, m.group(0), _tag(cfg))
            if exc is not None:
                cond = _cond_ok(fid, built)
                if "should_flush" in exc:
                    cond = cond and not should_flush_reach
                if "tombstone cutoff" in exc:
                    cond = cond and _compaction_clock_harmless(prog)
                if cond:
                    ck.ok("R20.1", key, "accepted: " + exc)
                    continue
                exc = None
            ck.bad("R20.1", key,
                   "ambient nondeterminism / production implementation `%s` is reachable from a simulation harness: %s" %
                   (m.group(0), " <- ".join(p.rsplit("::", 2)[-2] + "::" + p.rsplit("::", 1)[-1] for p in _path(seen, x))), f.where(t["ln"]))
    ck.floor("R20.1" + _tag(cfg), n, 4)


def _r202(ck, prog, cfg, seen):
    n = 0
    for x in sorted(seen):
        f = prog.fns[x]
        for b, t in f.calls():
            nm = t.get("fnargs") or ""
            if re.search(r"rand::SeedableRng>::(seed_from_u64|from_seed|from_rng|from_entropy)$", nm) or re.search(r"Rng.*::from_os_rng$", nm):
                n += 1
                meth = nm.rsplit("::", 1)[-1]
                fid = re.sub(r"\{closure#\d+\}", "{closure}", f.id)
                if meth in ("seed_from_u64", "from_seed"):
                    s = src_of_operand(f, t["args"][0])
                    ok = s.kind == "path" and (s.local is not None and s.local <= f.d["argc"] or "seed" in (s.root or "") or "seed" in ".".join(s.fields))
                    ok = ok or (s.kind in ("rv", "call") and _derives_from_param(f, t["args"][0]))
                    ck.check(ok, "R20.2", "%s:%s%s" % (fid, meth, _tag(cfg)),
                             "an RNG is seeded from %s, which is not a parameter/configuration seed" % s.path(), f.where(t["ln"]),
                             detail="seed from parameter (%s)" % s.path())
                else:
                    ck.bad("R20.2", "%s:%s%s" % (fid, meth, _tag(cfg)), "an RNG reachable from a harness is created with %s (not reproducible from the seed)" % meth,
                           f.where(t["ln"]))
    ck.floor("R20.2" + _tag(cfg), n, 2)


def _derives_from_param(f, operand, depth=0):
    seen = set()
    work = [operand]
    while work and len(seen) < 60:
        o = work.pop()
        if "c" in o:
            continue
        s = src_of_operand(f, o)
        k = (s.kind, s.local, s.path())
        if k in seen:
            continue
        seen.add(k)
        if s.kind == "path" and s.local is not None and s.local <= f.d["argc"]:
            return True
        if s.kind == "call":
            work.extend(s.term["args"])
        elif s.kind == "rv":
            rv = s.rv
            for key in ("a", "b"):
                if key in rv:
                    work.append(rv[key])
    return False


def _r203(ck, prog, cfg, seen, built):
    n = 0
    n_iter = 0
    for x in sorted(seen):
        f = prog.fns[x]
        n_iter += len(hashorder.hash_iterations(f))
        for r in hashorder.analyse(prog, f):
            n += 1
            fid = re.sub(r"\{closure#\d+\}", "{closure}", f.id)
            exc = None
            for fp, kp, why in HASH_EXCEPTIONS:
                if re.search(fp, fid) and re.fullmatch(kp, r["kind"]):
                    exc = why
            key = "%s:%s%s" % (fid, r["kind"], _tag(cfg))
            if exc is not None:
                cond = _cond_ok(fid, built)
                if "sort call exists" in exc:
                    cond = any(is_callee(t, *hashorder.SORT) for g in [f] + prog.children(f) for _, t in g.calls())
                if "max_keys_per_sync (1000)" in exc:
                    cond = cond and _default_sync_limit(prog) >= 1000
                if cond and r["kind"] == "vec-in-hash-order" and r.get("returned"):
                    # the order of the returned Vec is accepted as unobservable - which stops being true the moment a harness-reachable
                    # caller lets it meet the seeded RNG (one draw per element lands on a different element in every process)
                    for y in sorted(seen):
                        g = prog.fns[y]
                        for ln, what in _rng_over_result(prog, g, f):
                            cond = False
                            ck.bad("R20.3", "%s:rng-per-element-of:%s%s" % (re.sub(r"\{closure#\d+\}", "{closure}", g.id), f.short, _tag(cfg)),
                                   "%s returns its elements in hash order (accepted while nothing observes the order), and %s %s over that "
                                   "result: the k-th draw of the seeded RNG meets a different element in every process, so the same seed "
                                   "drops/picks different elements and the runs diverge" % (f.short, g.short, what), g.where(ln))
                    if not cond:
                        continue
                if cond:
                    ck.ok("R20.3", key, "accepted: " + exc)
                    continue
            if r.get("returned"):
                # the Vec leaves the function unsorted: the obligation moves to every harness-reachable caller
                callers = []
                leaks = []
                for y in sorted(seen):
                    g = prog.fns[y]
                    nc, badl = hashorder.caller_orders_result(prog, g, f)
                    if nc:
                        callers.append(g.id)
                        leaks += [(g, ln) for ln in badl]
                if callers and not leaks:
                    ck.ok("R20.3", key, "returned in hash order; every harness-reachable caller sorts it or uses it as a set: %s" % ", ".join(callers))
                    continue
                if leaks:
                    g, ln = leaks[0]
                    ck.bad("R20.3", key, "%s; returned in hash order and used order-sensitively by %s" % (r["what"], g.id), g.where(ln))
                    continue
            ck.bad("R20.3", key,
                   "hash-order leak reachable from a simulation harness: %s (%s): the result depends on the process's hash seed, so the same "
                   "seed gives different traces in different processes; reached via %s"
                   % (r["what"], r["kind"], " <- ".join(p.rsplit("::", 1)[-1] for p in _path(seen, x, 4))), f.where(r["ln"]))
    ck.floor("R20.3-iterations" + _tag(cfg), n_iter, 20)
    ck.extra["hash_iterations_examined"] = n_iter


def _r204(ck, prog, cfg):
    cmpf = [f for f in prog.lib_fns() if f.d.get("implements") == "std::cmp::Ord::cmp" and f.d.get("impl_self") == "simulator::Event"]
    ck.check(len(cmpf) == 1, "R20.4", "event-ord-exists" + _tag(cfg), "Ord for simulator::Event not found", None)
    for f in cmpf:
        calls = [t.get("fnargs") or "" for b, t in f.calls()]
        ok = all(re.search(r"VirtualTime as std::cmp::Ord>::cmp$", c) for c in calls) and calls
        ck.check(ok, "R20.4", "event-ord-by-time" + _tag(cfg), "Event ordering uses %s" % calls, f.where(), detail="cmp on VirtualTime only")
    adt = prog.adts.get("simulator::executor::Simulation") or {}
    heap = False
    for k, a in prog.adts.items():
        if k.startswith("simulator::executor::"):
            for v in a["variants"]:
                for fl in v["fields"]:
                    if fl["n"] == "events":
                        heap = heap or fl["t"].startswith("std::collections::BinaryHeap<simulator::Event")
                        ck.check(fl["t"].startswith("std::collections::BinaryHeap<"), "R20.4", "event-queue-type" + _tag(cfg),
                                 "the event queue is a %s" % fl["t"], None, detail=fl["t"])
    ck.check(heap, "R20.4", "event-queue-found" + _tag(cfg), "event queue field not found (anchor lost)", None)


def _r205(ck, prog, cfg):
    n = 0
    for f in prog.lib_fns():
        if not re.search(r"^buggify::should_buggify(_with_prob)?::\{closure#0\}$", f.id):
            continue
        for b, i, st in f.stmts():
            rv = st["rv"]
            if rv["k"] != "bin" or rv["op"] not in ("Lt", "Le", "Gt", "Ge"):
                continue
            for side in ("a", "b"):
                o = rv[side]
                if "c" in o:
                    continue
                s = src_of_operand(f, o, through_calls=TRANSPARENT + (r"f64::clamp$", r"::clamp$", r"::min$", r"::max$"))
                n += 1
                key = "%s:cmp#%d:%s%s" % (f.id.replace("::{closure#0}", ""), n, side, _tag(cfg))
                if s.kind == "call" and is_callee(s.term, r"FaultConfig::get$"):
                    recv = src_of_operand(f, s.term["args"][0], through_calls=TRANSPARENT + (r"Deref>::deref$", r"DerefMut>::deref_mut$", r"RefCell::<.*>::borrow(_mut)?$"))
                    good = "config" in recv.fields or recv.path().endswith("config")
                    ck.check(good, "R20.5", key, "the fault probability is read from %s, not from the context's current config" % recv.path(), f.where(st["ln"]),
                             detail="FaultConfig::get(ctx.config, id)")
                elif s.kind == "path" and (s.root or "").startswith(("probability", "_1")) or (s.kind == "path" and "probability" in (s.root or "") + ".".join(s.fields)):
                    ck.ok("R20.5", key, "probability parameter")
                elif s.kind == "rv" and s.rv["k"] in ("bin", "cast"):
                    # random_value = gen_range(..) as f64 / 1e6
                    inner = src_of_operand(f, s.rv["a"])
                    root = inner
                    hops = 0
                    while root.kind == "rv" and hops < 4:
                        root = src_of_operand(f, root.rv["a"])
                        hops += 1
                    good = root.kind == "call" and is_callee(root.term, r"io::Rng>::gen_range$", r"Rng>::gen_")
                    ck.check(good, "R20.5", key, "the compared value is computed from %s, not drawn from the RNG argument" % root.path(), f.where(st["ln"]),
                             detail="draw from the rng parameter")
                else:
                    ck.bad("R20.5", key, "the fault decision compares a value of unrecognised origin (%s: %s): if it can survive a change of "
                           "configuration (cache, counter) the run is no longer a function of seed and configuration" % (s.kind, s.path()[:80]), f.where(st["ln"]))
    ck.floor("R20.5" + _tag(cfg), n, 3)


STATIC_OK = [
    (r"::__CALLSITE$", "tracing's per-call-site interest cache (macro generated): read by the subscriber machinery only, never by the program's data flow"),
]
TLS_OK = [
    (r"^buggify::BUGGIFY_CONTEXT::|^thread_local<std::cell::RefCell<buggify::BuggifyContext>", "the BUGGIFY context: replaced by set_config at the start of a simulation (R20.5 decides what may survive it)"),
]


def _static_refs(node, out):
    if isinstance(node, dict):
        if "static" in node and "sfrozen" in node:
            out.append(("static", node["static"], node["sfrozen"]))
        if node.get("k") == "tls" and "def" in node:
            out.append(("tls", node["def"], False))
        for v in node.values():
            _static_refs(v, out)
    elif isinstance(node, list):
        for v in node:
            _static_refs(v, out)


def _r206(ck, prog, cfg, seen):
    n = 0
    ntls = 0
    for fid in sorted(seen):
        f = prog.fns[fid]
        refs = []
        _static_refs(f.d.get("blocks"), refs)
        for b, t in f.calls(reachable_only=False):
            m = None
            for nm in callee_names(t):
                m2 = re.search(r"std::thread::LocalKey::<(.*)>::(with|set|get|take|replace|with_borrow|with_borrow_mut|try_with)\b", nm)
                if m2 and (m is None or m.group(1) == "T"):
                    m = m2
            if m:
                ty = re.sub(r">::(with|set|get|take|replace|with_borrow|with_borrow_mut|try_with).*", "", m.group(1))
                refs.append(("tls", "thread_local<%s>" % ty, False))
        for kind, name, frozen in sorted(set(refs)):
            n += 1
            if kind == "tls":
                ntls += 1
                ok = any(re.search(p, name) for p, _ in TLS_OK)
                ck.check(ok, "R20.6", "tls:%s%s" % (re.sub(r"::\{.*", "", name), _tag(cfg)),
                         "thread-local state %s is used in code reachable from a simulation harness (via %s): it survives from one simulation to "
                         "the next on the same thread, so a run is no longer a function of its seed" % (name, " <- ".join(_path(seen, fid))), f.where())
                continue
            if frozen or any(re.search(p, name) for p, _ in STATIC_OK):
                continue
            ck.bad("R20.6", "static:%s%s" % (name, _tag(cfg)),
                   "the mutable static %s is used in %s, reachable from a simulation harness (%s): it is shared by every simulation in the process "
                   "and outlives each of them, so ids/values derived from it depend on what else ran (or runs concurrently), not on the seed"
                   % (name, f.short, " <- ".join(_path(seen, fid))), f.where())
    ck.floor("R20.6-tls" + _tag(cfg), ntls, 1)
    ck.ok("R20.6", "scan" + _tag(cfg), "%d static/thread-local references in %d reachable functions" % (n, len(seen)))


def _rng_over_result(prog, g, f):
    """[(line, what)] where g iterates the Vec returned by f (possibly through a spliced-in helper) and draws from the seeded RNG per element"""
    out = []
    calls = [(b, t) for b, t in g.calls() if prog.local_callee(g, t) is f and "p" not in t["dest"]]
    if not calls:
        return out
    dests = {t["dest"]["l"] for _, t in calls}

    def from_f(term):
        cur = term
        for _ in range(8):
            if not cur["args"]:
                return False
            sv = src_of_operand(g, cur["args"][0], through_calls=TRANSPARENT + (r"Deref>::deref$",))
            if sv.kind == "call" and sv.term["dest"].get("l") in dests and prog.local_callee(g, sv.term) is f:
                return True
            if sv.kind != "call":
                return sv.local in dests
            cur = sv.term
        return False
    for b, t in g.calls():
        if is_callee(t, r"Iterator>?::(filter|filter_map|map|for_each|any|all|find|position|take_while|skip_while|retain|inspect|partition)(::<.*>)?$", r"Vec::<.*>::retain(::<.*>)?$") and len(t["args"]) > 1:
            cl = src_of_operand(g, t["args"][1], through_calls=TRANSPARENT)
            kid = prog.fns.get(cl.rv.get("n")) if cl.kind == "agg" else None
            if kid is not None and hashorder._draws_rng(prog, kid, 0, set()) and from_f(t):
                out.append((t["ln"], "draws from the seeded RNG once per element (in the closure of `%s`)" % callee(t).rsplit("::", 1)[-1].split("<")[0]))
    heads = lib2.loop_heads(g)
    for h, (none_t, some_t, nb) in heads.items():
        if not from_f(g.term(nb)) and not from_f({"args": [g.term(nb)["args"][0]]} if g.term(nb)["args"] else {"args": []}):
            continue
        body = {some_t} | g.reach([some_t], avoid=[h])
        for sk in hashorder._body_sinks(prog, g, body, True):
            if sk["kind"] == "rng-draw":
                out.append((sk["ln"], sk["what"]))
    return out


def _compaction_clock_harmless(prog):
    """side condition of the Compactor::new exception: in Compactor::compact every ordering comparison that involves a value derived from the
    (production) time source has a Lamport logical time on its other side - the comparison the open C13 R13.2 finding describes, whose outcome
    does not depend on when the run happens.  A wall-clock value compared with anything else (a TTL, an object's creation time) makes the
    compaction outcome depend on real time."""
    from . import c13
    try:
        fn = prog.one(c13.COMPACT)
    except Exception:
        return False
    tainted, names = c13._wall_clock_locals(fn)
    from .c10 import _taint
    for f in [fn] + prog.children(fn):
        kid_taint = set()
        if f is not fn:
            seeds = set()
            for b, i, st in f.stmts():
                if st["rv"]["k"] in ("use", "ref") and st["lhs"].get("l") is not None and not st["lhs"].get("p"):
                    s0 = src_of_operand(f, st["rv"]["a"], through_calls=TRANSPARENT) if st["rv"]["k"] == "use" and "c" not in st["rv"]["a"] else None
                    if s0 is not None and s0.kind == "path" and s0.root in names:
                        seeds.add(st["lhs"]["l"])
            kid_taint = _taint(f, seeds) if seeds else set()
        for b, i, st in f.stmts():
            rv = st["rv"]
            if rv["k"] != "bin" or rv["op"] not in ("Lt", "Le", "Gt", "Ge"):
                continue
            sa = src_of_operand(f, rv["a"], through_calls=TRANSPARENT)
            sb = src_of_operand(f, rv["b"], through_calls=TRANSPARENT)

            def is_wall(s_, o):
                p_ = op_place(o)
                if f is fn and p_ is not None and p_["l"] in tainted:
                    return True
                if f is not fn and p_ is not None and p_["l"] in kid_taint:
                    return True
                return s_.kind == "path" and (s_.root in names) and f is not fn

            def is_logical(s_):
                return s_.fields[-2:] == ("timestamp", "time") or (s_.kind == "path" and s_.fields[-1:] == ("time",) and "timestamp" in s_.fields)
            wa, wb = is_wall(sa, rv["a"]), is_wall(sb, rv["b"])
            if (wa and not is_logical(sb)) or (wb and not is_logical(sa)):
                return False
    return True


def _default_sync_limit(prog):
    """the per-round key limit AntiEntropyConfig::default() configures (0 when it cannot be read: the exception then does not apply)"""
    from . import bounds as _b
    adt = prog.adts.get("replication::anti_entropy::AntiEntropyConfig")
    if not adt:
        return 0
    idx = [i for i, x in enumerate(adt["variants"][0]["fields"]) if x["n"] == "max_keys_per_sync"]
    if not idx:
        return 0
    best = None
    for f in prog.lib_fns():
        if "AntiEntropyConfig" not in f.id or not (f.d.get("implements") or "").endswith("Default::default"):
            continue
        for b, i, st in f.stmts():
            rv = st["rv"]
            if rv["k"] == "agg" and str(rv.get("n", "")).endswith("anti_entropy::AntiEntropyConfig") and len(rv.get("ops", [])) > idx[0]:
                v = _b.const_val(f, rv["ops"][idx[0]])
                if v is not None:
                    best = v if best is None else min(best, v)
    return best or 0
