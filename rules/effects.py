"""Effect analysis on CommandExecutor handlers: where can the visible keyspace (data / expirations) be written?"""
import re
from .facts import callee, op_place, op_local
from .lib import src_of_operand, src_of_place, is_callee, TRANSPARENT, switch_info
from . import lib2

EXEC = "redis::executor::CommandExecutor"
MAP_MUT = r"(AHashMap|HashMap)::<std::string::String, .*>::(insert|remove|clear|retain|drain|extend|remove_entry|swap_remove|shrink_to_fit)\b"
MAP_REFMUT = r"(AHashMap|HashMap)::<std::string::String, .*>::(get_mut|entry|values_mut|iter_mut)\b"
# callees of the executor that are invisible by design (lazy expiry purge, counters)
EXEMPT_METHODS = ("get_value", "get_value_mut", "is_expired")
THROUGH = TRANSPARENT + (r"DerefMut>::deref_mut$", r"Deref>::deref$", r"Entry::<.*>::or_insert_with", r"Entry::<.*>::or_insert\b",
                         r"Entry::<.*>::or_default", r"Option::<.*>::(unwrap|expect|unwrap_or_else)\b")


def executor_methods(prog):
    return [f for f in prog.lib_fns() if f.d.get("impl_self") == EXEC and f.kind == "method"]


def _state_field(src):
    """'data' / 'expirations' if the access path is self.<that field>..."""
    if src.kind == "path" and src.root == "self" and src.fields[:1] in (("data",), ("expirations",)):
        return src.fields[0]
    return None


def _is_expired_guarded(fn, b):
    for g in lib2.guards(fn, b):
        s = g["src"]
        if s is not None and s.kind == "call" and is_callee(s.term, r"CommandExecutor::is_expired$") and lib2.guard_is_true(g):
            return True
    return False


def write_sites(prog, fn, writers=None, include_entry=False):
    """list of dicts describing visible write sites in fn."""
    out = []
    for b, t in fn.calls():
        if not t["args"]:
            continue
        a0 = t["args"][0]
        s0 = src_of_operand(fn, a0, through_calls=THROUGH) if "c" not in a0 else None
        # W1: direct map mutation
        if s0 is not None and is_callee(t, MAP_MUT):
            fld = _state_field(s0)
            if fld and len([f for f in s0.fields if not f.startswith("<")]) == 1:
                if _is_expired_guarded(fn, b):
                    continue
                out.append({"b": b, "kind": "map", "what": "%s.%s" % (fld, callee(t).rsplit("::", 1)[-1].split("<")[0]), "ln": t["ln"], "t": t})
                continue
        if s0 is not None and include_entry and is_callee(t, r"(AHashMap|HashMap)::<std::string::String, .*>::entry\b"):
            fld = _state_field(s0)
            if fld:
                out.append({"b": b, "kind": "entry", "what": "%s.entry" % fld, "ln": t["ln"], "t": t})
                continue
        # W2: a &mut reference derived from the state is handed to a callee
        wrote = False
        for ai, a in enumerate(t["args"]):
            if "c" in a:
                continue
            pl = op_place(a)
            if pl is None or "p" in pl:
                continue
            ty = fn.locals[pl["l"]]
            if not ty.startswith("&mut "):
                continue
            s = src_of_operand(fn, a, through_calls=THROUGH)
            derived = False
            if s.kind == "call" and is_callee(s.term, r"CommandExecutor::get_value_mut$", MAP_REFMUT):
                derived = True
            if s.kind == "path" and s.root == "self" and s.fields[:1] in (("data",), ("expirations",)) and len(s.fields) > 1:
                derived = True
            if derived:
                if is_callee(t, r"DerefMut>::deref_mut$", r"Entry::<.*>::or_insert", r"Option::<.*>::(unwrap|expect|as_mut|as_deref_mut)",
                             MAP_REFMUT, r"CommandExecutor::get_value_mut$"):
                    continue
                # callee of a data-structure type taking &mut self: a mutation of the stored value
                out.append({"b": b, "kind": "value", "what": callee(t).split("<")[0].rsplit("::", 2)[-2:] and callee(t),
                            "ln": t["ln"], "t": t})
                wrote = True
                break
        if wrote:
            continue
        # W3: calls to executor methods that write
        if writers is not None:
            c = prog.local_callee(fn, t)
            if c is not None and c.id in writers and c.short not in EXEMPT_METHODS:
                if s0 is not None and s0.kind == "path" and s0.root == "self" and not s0.fields:
                    out.append({"b": b, "kind": "call", "what": c.short, "ln": t["ln"], "t": t})
    # assignments through a state-derived &mut (e.g. `*v = Value::String(..)`)
    for b, i, st in fn.stmts():
        lhs = st["lhs"]
        if "p" not in lhs:
            continue
        s = src_of_place(fn, lhs, through_calls=THROUGH)
        hit = False
        if s.kind == "call" and is_callee(s.term, r"CommandExecutor::get_value_mut$", MAP_REFMUT):
            hit = True
        if s.kind == "path" and s.root == "self" and s.fields[:1] in (("data",), ("expirations",)):
            hit = True
        if hit:
            out.append({"b": b, "kind": "assign", "what": "store through " + s.path(), "ln": st["ln"], "t": None})
    return out


def writer_set(prog):
    """ids of CommandExecutor methods (and their closures) that can visibly write, transitively."""
    meths = executor_methods(prog)
    bodies = {}
    for m in meths:
        bodies[m.id] = prog.with_children(m)
    writers = set()
    changed = True
    while changed:
        changed = False
        for m in meths:
            if m.id in writers or m.short in EXEMPT_METHODS:
                continue
            if m.locals[1].startswith("&redis::executor::CommandExecutor") if len(m.locals) > 1 else False:
                continue  # &self: cannot write
            for f in bodies[m.id]:
                if write_sites(prog, f, writers):
                    writers.add(m.id)
                    changed = True
                    break
    return writers


def error_sites(fn):
    out = []
    for b, t in fn.calls():
        if is_callee(t, r"redis::resp::RespValue::err\b", r"redis::resp::RespValue::error\b"):
            out.append((b, t["ln"], (t["args"][0].get("c") or "")[:60] if t["args"] else ""))
    for b, i, st in fn.stmts():
        rv = st["rv"]
        if rv["k"] == "agg" and rv["n"] == "redis::resp::RespValue::Error":
            out.append((b, st["ln"], "Error{..}"))
    return out


def dispatch_table(prog, fn, enum_ty="redis::command::Command"):
    """variant name -> list of call terminators in the arm of `match *cmd` inside fn (the main dispatch)."""
    adt = prog.adts.get(enum_ty)
    names = [v["n"] for v in adt["variants"]]
    best = None
    for b in sorted(fn.reachable_blocks()):
        si = switch_info(fn, b)
        if si and si["kind"] == "discr" and si["ty"] == enum_ty:
            t = fn.term(b)
            if best is None or len(t["cases"]) > len(fn.term(best)["cases"]):
                best = b
    if best is None:
        return None, {}
    t = fn.term(best)
    table = {}
    targets = {}
    for v, tg in t["cases"]:
        targets.setdefault(tg, []).append(names[int(v)])
    listed = {names[int(v)] for v, _ in t["cases"]}
    other = [n for n in names if n not in listed]
    if other:
        targets.setdefault(t["else"], []).extend(other)
    for tg, vs in targets.items():
        # blocks dominated by the arm entry
        arm = [x for x in fn.reachable_blocks() if fn.dominates(tg, x)] if fn.pred(tg) == [best] else [tg]
        calls = []
        for x in sorted(arm):
            tt = fn.term(x)
            if tt["k"] == "call":
                calls.append(tt)
        for v in vs:
            table[v] = calls
    return best, table


_vbm_cache = {}


def validates_before_mutating(prog, f):
    """data-structure method returning Result: no store through `self` (param 1) precedes an `Err` return."""
    if f.id in _vbm_cache:
        return _vbm_cache[f.id]
    ok = True
    if not f.locals[0].startswith("std::result::Result<"):
        ok = False
    else:
        wblocks = set()
        for b, i, st in f.stmts():
            s = src_of_place(f, st["lhs"], through_calls=THROUGH)
            if "p" in st["lhs"] and s.kind == "path" and s.local == 1:
                wblocks.add(b)
        for b, t in f.calls():
            for a in t["args"]:
                if "c" in a:
                    continue
                pl = op_place(a)
                if pl is None or "p" in pl or not f.locals[pl["l"]].startswith("&mut "):
                    continue
                s = src_of_operand(f, a, through_calls=THROUGH)
                if s.kind == "path" and s.local == 1:
                    wblocks.add(b)
        for wb in wblocks:
            region = f.reach([wb])
            for rb in region:
                if lib2._err_assign_block(f, rb):
                    ok = False
    _vbm_cache[f.id] = ok
    return ok
